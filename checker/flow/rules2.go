package flow

import (
	"fmt"
	"go/constant"
	"go/token"
	"go/types"
	"strings"
	"utilcheck/pred"

	"golang.org/x/tools/go/ssa"
)

// ---------- C18.L: the limit guard dominates all "work" on the input ----------

// guardInfo describes a MaxInputLength guard found in fn (possibly via an in-repo helper).
type guardInfo struct {
	cmp    *ssa.BinOp      // len > Max
	errBlk *ssa.BasicBlock // block taken when too long
	okBlk  *ssa.BasicBlock // continuation
	via    *ssa.Call       // call to helper containing the guard (nil if inline)
}

// isIntParam: p has an integer type (it stands for the length of the input, not for the input).
func isIntParam(p *ssa.Parameter) bool {
	b, ok := p.Type().Underlying().(*types.Basic)
	return ok && b.Info()&types.IsInteger != 0
}

func isLenOf(v ssa.Value) (ssa.Value, bool) {
	v = stripConv(v)
	call, ok := v.(*ssa.Call)
	if !ok {
		return nil, false
	}
	b, ok := call.Call.Value.(*ssa.Builtin)
	if !ok || b.Name() != "len" {
		return nil, false
	}
	return call.Call.Args[0], true
}

func stripConv(v ssa.Value) ssa.Value {
	for {
		switch x := v.(type) {
		case *ssa.Convert:
			if narrowingConv(x) {
				return v // int16(n), uint32(lo): not the same number
			}
			v = x.X
		case *ssa.ChangeType:
			v = x.X
		default:
			return v
		}
	}
}

// narrowingConv: an integer converted to an integer type of fewer bits.
func narrowingConv(c *ssa.Convert) bool {
	return pred.NarrowingInt(c.X.Type(), c.Type())
}

// rootInput follows conversions/slices back to a parameter.
func rootParam(v ssa.Value) *ssa.Parameter {
	for i := 0; i < 10; i++ {
		switch x := v.(type) {
		case *ssa.Parameter:
			return x
		case *ssa.MultiConvert:
			v = x.X
		case *ssa.Convert:
			v = x.X
		case *ssa.ChangeType:
			v = x.X
		case *ssa.Slice:
			v = x.X
		case *ssa.Phi:
			// all edges must agree
			var p *ssa.Parameter
			for _, e := range x.Edges {
				q := rootParam(e)
				if q == nil || (p != nil && p != q) {
					return nil
				}
				p = q
			}
			return p
		case *ssa.UnOp:
			// a parameter that a closure captures (or whose address is taken) lives in a cell: a load of that cell
			// is the parameter if everything the function stores there is the parameter or a part of it
			al, ok := x.X.(*ssa.Alloc)
			if !ok || x.Op != token.MUL || al.Referrers() == nil {
				return nil
			}
			var p *ssa.Parameter
			for _, r := range *al.Referrers() {
				st, ok := r.(*ssa.Store)
				if !ok || st.Addr != ssa.Value(al) {
					continue
				}
				if ld, isLd := st.Val.(*ssa.UnOp); isLd && ld.X == ssa.Value(al) {
					continue
				}
				var q *ssa.Parameter
				if sl, isSl := st.Val.(*ssa.Slice); isSl {
					if ld, isLd := sl.X.(*ssa.UnOp); isLd && ld.X == ssa.Value(al) {
						continue // the cell re-sliced in place (input = input[1:])
					}
					q = rootParam(sl.X)
				} else {
					q = rootParam(st.Val)
				}
				if q == nil || (p != nil && p != q) {
					return nil
				}
				p = q
			}
			return p
		default:
			return nil
		}
	}
	return nil
}

// limitPredicateCall: cond is a call p(…, n, …) of a module function with a single bool result that answers
// `n > MaxInputLength` (behind its "limit is on" conjunct): returns the callee's comparison, the argument standing
// for n, and the limit variable. The predicate answers true for over-long input.
func (c *Ctx) limitPredicateCall(cond ssa.Value) (cmp *ssa.BinOp, n ssa.Value, g *ssa.Global, ok bool) {
	call, isCall := cond.(*ssa.Call)
	if !isCall {
		return nil, nil, nil, false
	}
	callee := c.StaticCallee(&call.Call)
	if callee == nil || !inRepo(callee) || len(callee.Blocks) == 0 {
		return nil, nil, nil, false
	}
	callee = origin(callee)
	res := callee.Signature.Results()
	if res.Len() != 1 {
		return nil, nil, nil, false
	}
	if bt, isB := res.At(0).Type().Underlying().(*types.Basic); !isB || bt.Kind() != types.Bool {
		return nil, nil, nil, false
	}
	for _, b := range callee.Blocks {
		ret, isRet := b.Instrs[len(b.Instrs)-1].(*ssa.Return)
		if !isRet {
			continue
		}
		if cmp != nil {
			return nil, nil, nil, false // one return only
		}
		k := condCmp(ret.Results[0])
		if k == nil || k.Op != token.GTR || globalLoad(k.Y) == nil {
			return nil, nil, nil, false
		}
		prm, isP := k.X.(*ssa.Parameter)
		if !isP {
			return nil, nil, nil, false
		}
		for i, q := range callee.Params {
			if q == prm && i < len(call.Call.Args) {
				cmp, n, g = k, call.Call.Args[i], globalLoad(k.Y)
			}
		}
	}
	return cmp, n, g, cmp != nil
}

func (c *Ctx) findGuard(fn *ssa.Function, input *ssa.Parameter) *guardInfo {
	for _, b := range fn.Blocks {
		iff, ok := b.Instrs[len(b.Instrs)-1].(*ssa.If)
		if !ok {
			continue
		}
		cmp := condCmp(iff.Cond)
		if cmp == nil {
			// the comparison moved into a predicate of the module: `if exceedsLimit(len(input)) { … }`
			if pc, n, pg, ok := c.limitPredicateCall(iff.Cond); ok && pg.Name() == "MaxInputLength" {
				if arg, ok := isLenOf(n); ok && rootParam(arg) == input {
					return &guardInfo{cmp: pc, errBlk: b.Succs[0], okBlk: b.Succs[1]}
				}
			}
			continue
		}
		var lenSide ssa.Value
		var g *ssa.Global
		tooLongOnTrue := false
		switch {
		case cmp.Op == token.GTR && globalLoad(cmp.Y) != nil:
			lenSide, g, tooLongOnTrue = cmp.X, globalLoad(cmp.Y), true
		case cmp.Op == token.LSS && globalLoad(cmp.X) != nil:
			lenSide, g, tooLongOnTrue = cmp.Y, globalLoad(cmp.X), true
		case cmp.Op == token.LEQ && globalLoad(cmp.Y) != nil:
			lenSide, g, tooLongOnTrue = cmp.X, globalLoad(cmp.Y), false
		case cmp.Op == token.GEQ && globalLoad(cmp.X) != nil:
			lenSide, g, tooLongOnTrue = cmp.Y, globalLoad(cmp.X), false
		default:
			continue
		}
		if g.Name() != "MaxInputLength" {
			continue
		}
		if isIntParam(input) {
			// the parameter is the length itself (a guard helper handed len(input))
			if stripConv(lenSide) != ssa.Value(input) {
				continue
			}
		} else if arg, ok := isLenOf(lenSide); !ok || rootParam(arg) != input {
			continue
		}
		gi := &guardInfo{cmp: cmp}
		if tooLongOnTrue {
			gi.errBlk, gi.okBlk = b.Succs[0], b.Succs[1]
		} else {
			gi.errBlk, gi.okBlk = b.Succs[1], b.Succs[0]
		}
		// the conjunction written the other way round (`l > Max && Max != 0`): the too-long edge leads to the
		// "limit is on" test, whose true edge rejects and whose false edge joins the continuation
		if eb, ok2 := nonZeroTestBlock(gi.errBlk, g); ok2 && len(gi.errBlk.Preds) == 1 {
			other := gi.errBlk.Succs[0]
			if other == eb {
				other = gi.errBlk.Succs[1]
			}
			if other == gi.okBlk {
				gi.errBlk = eb
			}
		}
		return gi
	}
	return nil
}

// nonZeroTestBlock: b consists of a test `g != 0` / `g > 0` (or the complements) and branches on it; returns the
// successor taken when g is not zero.
func nonZeroTestBlock(b *ssa.BasicBlock, g *ssa.Global) (*ssa.BasicBlock, bool) {
	iff, ok := b.Instrs[len(b.Instrs)-1].(*ssa.If)
	if !ok {
		return nil, false
	}
	cond, ok := iff.Cond.(*ssa.BinOp)
	if !ok || globalLoad(cond.X) != g {
		return nil, false
	}
	if k, isK := constInt(cond.Y); !isK || k != 0 {
		return nil, false
	}
	for _, in := range b.Instrs[:len(b.Instrs)-1] { // nothing but the load and the comparison
		switch in.(type) {
		case *ssa.UnOp, *ssa.BinOp:
		default:
			return nil, false
		}
	}
	switch cond.Op {
	case token.NEQ, token.GTR:
		return b.Succs[0], true
	case token.EQL, token.LEQ:
		return b.Succs[1], true
	}
	return nil, false
}

// isWork reports whether instruction in is "work on the input": an index/slice of an alias of the input,
// a regexp call, a JSON decoder construction, or a range/loop over it.
func (c *Ctx) isWork(in ssa.Instruction, input *ssa.Parameter) (string, bool) {
	switch x := in.(type) {
	case *ssa.IndexAddr:
		if rootParam(x.X) == input {
			return "index of input", true
		}
	case *ssa.Index:
		if rootParam(x.X) == input {
			return "index of input", true
		}
	case *ssa.Slice:
		if rootParam(x.X) == input {
			return "slice of input", true
		}
	case *ssa.Range:
		if rootParam(x.X) == input {
			return "range over input", true
		}
	case *ssa.Call:
		f := x.Call.StaticCallee()
		if f == nil {
			return "", false
		}
		name := origin(f).String()
		if strings.HasPrefix(name, "(*regexp.Regexp).") || name == "encoding/json.NewDecoder" || name == "(*encoding/json.Decoder).Token" {
			return "call " + name, true
		}
		// the input handed to a function of the module: whatever it does with it is work — unless it only builds
		// an error value from it (a constructor: its one result is an error type)
		if inRepo(f) {
			for ai, a := range x.Call.Args {
				if rootParam(a) != input {
					continue
				}
				res := f.Signature.Results()
				if res.Len() == 1 && implementsError(res.At(0).Type()) {
					continue
				}
				// a function that checks the limit itself before it works on the text (the parser proper, entered
				// from more than one place), or one that does no work on it at all (it builds the failure result)
				if g := origin(f); ai < len(g.Params) && len(g.Blocks) > 0 {
					if c.findGuard(g, g.Params[ai]) != nil || c.delegatesGuard(g, ai, 0) || !c.worksOn(g, ai, 0) {
						continue
					}
				}
				return "call of " + FnName(f) + " with the input", true
			}
		}
	}
	return "", false
}

// worksOn: fn, or a function of the module it hands the parameter to, does work on parameter pi.
func (c *Ctx) worksOn(fn *ssa.Function, pi int, depth int) bool {
	if depth > 3 {
		return true
	}
	for _, b := range fn.Blocks {
		for _, in := range b.Instrs {
			if call, ok := in.(*ssa.Call); ok {
				if f := c.StaticCallee(&call.Call); f != nil && inRepo(f) {
					for ai, a := range call.Call.Args {
						if rootParam(a) == fn.Params[pi] {
							if g := origin(f); ai >= len(g.Params) || len(g.Blocks) == 0 || c.worksOn(g, ai, depth+1) {
								return true
							}
						}
					}
					continue
				}
			}
			if _, ok := c.isWork(in, fn.Params[pi]); ok {
				return true
			}
		}
	}
	return false
}

// implementsError: t (or *t) has an Error() string method.
func implementsError(t types.Type) bool {
	if isErrorType(t) {
		return true
	}
	for _, tt := range []types.Type{t, types.NewPointer(t)} {
		ms := types.NewMethodSet(tt)
		for i := 0; i < ms.Len(); i++ {
			if ms.At(i).Obj().Name() == "Error" {
				return true
			}
		}
	}
	return false
}

func (c *Ctx) RuleLimitFirst(fn *ssa.Function, inputIdx int, sentinel *ssa.Global, depth int) {
	input := fn.Params[inputIdx]
	gi := c.findGuard(fn, input)
	if gi == nil {
		// guard may live in an in-repo callee that receives the input and whose error result is returned first
		for _, b := range fn.Blocks {
			for _, in := range b.Instrs {
				call, ok := in.(*ssa.Call)
				if !ok {
					continue
				}
				callee := c.StaticCallee(&call.Call)
				if callee == nil || !inRepo(callee) || depth > 3 {
					continue
				}
				for ai, a := range call.Call.Args {
					carries := rootParam(a) == input
					if la, isLen := isLenOf(a); isLen && rootParam(la) == input && !isIntParam(input) {
						carries = true // the helper is handed the length
					}
					if carries && ai < len(callee.Params) {
						if c.findGuard(callee, callee.Params[ai]) != nil || c.delegatesGuard(callee, ai, 0) {
							// all work in fn must be dominated by the block after the error test of this call
							okBlk := c.errTestContinuation(call)
							if okBlk == nil {
								c.add("undecided", "C18.L", fn, call.Pos(), "guard helper result not tested in the recognised form")
								return
							}
							c.checkWorkDominated(fn, input, okBlk, call)
							c.checkSuccessDominated(fn, input, okBlk, nil, call)
							c.RuleLimitFirst(callee, ai, sentinel, depth+1)
							return
						}
					}
				}
			}
		}
		c.add("violated", "C18.L", fn, fn.Pos(), "no MaxInputLength guard on the input found on the way to its use")
		return
	}
	c.checkGuardUnconditional(fn, gi)
	c.checkWorkDominated(fn, input, gi.okBlk, nil)
	c.checkSuccessDominated(fn, input, gi.okBlk, gi.errBlk, nil)
	// error edge: returns error built from zero T and wrapping the sentinel, no operand derived from input content
	c.checkTooLongEdge(fn, gi, input, sentinel)
}

// RuleLimitLate: the limit rule for an entry point added beside the recorded ones. It has the guard itself
// (RuleLimitFirst), or it hands its text — whole or a part of it — to a guarded entry of the package: one of
// `guarded` called directly, or the package-level parser variable called through its value. In front of that call
// the text is only measured, indexed or sliced outside any loop: no call receives it, no loop reads it.
func (c *Ctx) RuleLimitLate(fn *ssa.Function, inputIdx int, sentinel *ssa.Global, guarded map[*ssa.Function]bool, parserVar *ssa.Global) {
	input := fn.Params[inputIdx]
	if c.findGuard(fn, input) != nil {
		c.RuleLimitFirst(fn, inputIdx, sentinel, 0)
		return
	}
	carries := func(cc *ssa.CallCommon) bool {
		for _, a := range cc.Args {
			if rootParam(a) == input {
				return true
			}
		}
		return false
	}
	var deleg *ssa.Call
	for _, b := range fn.Blocks {
		for _, in := range b.Instrs {
			call, ok := in.(*ssa.Call)
			if !ok || !carries(&call.Call) {
				continue
			}
			if f := c.StaticCallee(&call.Call); f != nil {
				if guarded[origin(f)] && deleg == nil {
					deleg = call
				}
				continue
			}
			if ld, ok := call.Call.Value.(*ssa.UnOp); ok && ld.Op == token.MUL && parserVar != nil && ld.X == ssa.Value(parserVar) && deleg == nil {
				deleg = call
			}
		}
	}
	if deleg == nil {
		// a callee of the module that has the guard (the shape RuleLimitFirst follows), else nothing enforces the limit
		c.RuleLimitFirst(fn, inputIdx, sentinel, 0)
		return
	}
	cyc := cyclicBlocks(fn)
	bad := false
	// the guarded parser measures what it is handed: a part of the text (`s[:10]`) is within the limit however long
	// the text is
	for _, a := range deleg.Call.Args {
		if rootParam(a) == input && hasSliceOnPath(a) {
			c.add("violated", "C18.L", fn, deleg.Pos(), "only a part of the input is handed to the guarded parser: the limit is applied to the part, an input longer than the limit is not rejected")
			bad = true
		}
	}
	// … and its verdict is the entry's: no return with a nil error that the delegation does not dominate (other than
	// for the empty text), and no error of the entry's own that repeats the input (the too-long error is among those
	// it wraps)
	if res := fn.Signature.Results(); res.Len() > 0 && isErrorType(res.At(res.Len()-1).Type()) {
		var mayBeNil func(v ssa.Value, depth int) bool
		mayBeNil = func(v ssa.Value, depth int) bool {
			switch x := v.(type) {
			case *ssa.Const:
				return x.IsNil()
			case *ssa.Phi:
				if depth > 4 {
					return false
				}
				for _, e := range x.Edges {
					if mayBeNil(e, depth+1) {
						return true
					}
				}
			}
			return false
		}
		for _, b := range fn.Blocks {
			ret, ok := b.Instrs[len(b.Instrs)-1].(*ssa.Return)
			if !ok || len(ret.Results) == 0 {
				continue
			}
			ev := ret.Results[len(ret.Results)-1]
			if !deleg.Block().Dominates(b) && mayBeNil(ev, 0) && !emptyOnlyBlock(fn, input, b) {
				c.add("violated", "C18.L", fn, ret.Pos(), "a return with a nil error is reachable without passing the delegation to the guarded parser: input longer than the limit is answered instead of rejected")
				bad = true
			}
			if !mayBeNil(ev, 0) && ev != ssa.Value(deleg) && usesParam(ret, input) {
				if ex, isEx := ev.(*ssa.Extract); !isEx || ex.Tuple != ssa.Value(deleg) {
					c.add("violated", "C18.L", fn, ret.Pos(), "the entry point wraps the guarded parser's error in one of its own that is built from the input: the too-long rejection then reproduces the input")
					bad = true
				}
			}
		}
	}
	for _, b := range fn.Blocks {
		for _, in := range b.Instrs {
			if in == ssa.Instruction(deleg) {
				continue
			}
			behind := deleg.Block().Dominates(b) && (b != deleg.Block() || precedes(deleg, in))
			if behind {
				continue
			}
			switch x := in.(type) {
			case *ssa.Call:
				if bi, isB := x.Call.Value.(*ssa.Builtin); isB && (bi.Name() == "len" || bi.Name() == "cap") {
					continue
				}
				if carries(&x.Call) {
					if f := c.StaticCallee(&x.Call); f != nil && f.Signature.Results().Len() == 1 && implementsError(f.Signature.Results().At(0).Type()) && inRepo(f) {
						continue // the failure result built from the text
					}
					c.add("violated", "C18.L", fn, x.Pos(), "the input is handed to a call in front of the delegation to the guarded parser: work on a text of unchecked length")
					bad = true
				}
			case *ssa.Index, *ssa.IndexAddr, *ssa.Slice, *ssa.Range, *ssa.Lookup:
				if !cyc[b] {
					continue
				}
				for _, op := range in.Operands(nil) {
					if rootParam(*op) == input {
						c.add("violated", "C18.L", fn, in.Pos(), "the input is read in a loop in front of the delegation to the guarded parser: work on a text of unchecked length")
						bad = true
					}
				}
			}
		}
	}
	if !bad {
		c.add("discharged", "C18.L", fn, deleg.Pos(), "hands its text to the package's guarded parser before any work on it")
	}
}

// cyclicBlocks: the blocks of fn that lie on a CFG cycle.
func cyclicBlocks(fn *ssa.Function) map[*ssa.BasicBlock]bool {
	out := map[*ssa.BasicBlock]bool{}
	for _, b := range fn.Blocks {
		if reachFrom(b)[b] {
			out[b] = true
		}
	}
	return out
}

// precedes: a comes before b in their common block.
func precedes(a, b ssa.Instruction) bool {
	for _, x := range a.Block().Instrs {
		if x == a {
			return true
		}
		if x == b {
			return false
		}
	}
	return false
}

// delegatesGuard: callee passes the param straight to another in-repo function that has the guard.
func (c *Ctx) delegatesGuard(fn *ssa.Function, pi int, depth int) bool {
	if depth > 3 {
		return false
	}
	for _, b := range fn.Blocks {
		for _, in := range b.Instrs {
			call, ok := in.(*ssa.Call)
			if !ok {
				continue
			}
			callee := c.StaticCallee(&call.Call)
			if callee == nil || !inRepo(callee) {
				continue
			}
			for ai, a := range call.Call.Args {
				if rootParam(a) == fn.Params[pi] && ai < len(callee.Params) {
					if c.findGuard(callee, callee.Params[ai]) != nil || c.delegatesGuard(callee, ai, depth+1) {
						return true
					}
				}
			}
		}
	}
	return false
}

// errTestContinuation: for `x, err := call(...); if err != nil { return ... }` returns the continuation block;
// also accepts `return call(...)` (tail delegation) by returning the call's own block.
func (c *Ctx) errTestContinuation(call *ssa.Call) *ssa.BasicBlock {
	// a helper whose only result is the error: `if err := check(…); err != nil { return … }`
	if isErrorType(call.Type()) {
		for _, r := range *call.Referrers() {
			bo, ok := r.(*ssa.BinOp)
			if !ok || bo.Op != token.NEQ || !isNilConst(bo.Y) {
				continue
			}
			for _, r2 := range *bo.Referrers() {
				if iff, ok := r2.(*ssa.If); ok {
					return iff.Block().Succs[1]
				}
			}
		}
	}
	for _, r := range *call.Referrers() {
		ex, ok := r.(*ssa.Extract)
		if !ok || !isErrorType(ex.Type()) {
			continue
		}
		for _, r2 := range *ex.Referrers() {
			bo, ok := r2.(*ssa.BinOp)
			if !ok || bo.Op != token.NEQ || !isNilConst(bo.Y) {
				continue
			}
			for _, r3 := range *bo.Referrers() {
				if iff, ok := r3.(*ssa.If); ok {
					return iff.Block().Succs[1]
				}
			}
		}
	}
	// tail call: every referrer is an Extract feeding the Return in the same block
	blk := call.Block()
	if _, ok := blk.Instrs[len(blk.Instrs)-1].(*ssa.Return); ok {
		return blk
	}
	return nil
}

func (c *Ctx) checkWorkDominated(fn *ssa.Function, input *ssa.Parameter, okBlk *ssa.BasicBlock, after *ssa.Call) {
	n := 0
	for _, b := range fn.Blocks {
		for _, in := range b.Instrs {
			what, ok := c.isWork(in, input)
			if !ok || in == ssa.Instruction(after) {
				continue
			}
			n++
			dominated := okBlk.Dominates(b)
			if b == okBlk && after != nil && b == after.Block() {
				// tail-delegation case: work must come after the call in the same block
				dominated = false
				seen := false
				for _, x := range b.Instrs {
					if x == after {
						seen = true
					}
					if x == in {
						dominated = seen
					}
				}
			}
			if !dominated {
				c.add("violated", "C18.L", fn, in.Pos(), what+" is not dominated by the input-length guard")
			}
		}
	}
	c.add("discharged", "C18.L", fn, fn.Pos(), fmt.Sprintf("%d work site(s) on the input, all dominated by the guard", n))
}

// emptyOnlyBlock: b is reached only when len(input) == 0 (the zero side of a test of the input's length against 0).
func emptyOnlyBlock(fn *ssa.Function, input *ssa.Parameter, b *ssa.BasicBlock) bool {
	return shortOnlyBlock(fn, input, b, 0)
}

// shortOnlyBlock: block b runs only for inputs of at most maxLen bytes (maxLen 0: the empty input; 1: an input no
// set limit can call too long, the smallest limit being 1).
func shortOnlyBlock(fn *ssa.Function, input *ssa.Parameter, b *ssa.BasicBlock, maxLen int64) bool {
	for _, d := range fn.Blocks {
		iff, ok := d.Instrs[len(d.Instrs)-1].(*ssa.If)
		if !ok {
			continue
		}
		bo, ok := iff.Cond.(*ssa.BinOp)
		if !ok {
			continue
		}
		k, isK := constInt(bo.Y)
		call, isCall := bo.X.(*ssa.Call)
		if !isK || !isCall {
			continue
		}
		if bi, ok := call.Call.Value.(*ssa.Builtin); !ok || bi.Name() != "len" || rootParam(call.Call.Args[0]) != input {
			continue
		}
		side := -1 // the successor taken when the length is 0 (at most maxLen)
		switch {
		case bo.Op == token.EQL && k >= 0 && k <= maxLen, bo.Op == token.LSS && k >= 1 && k <= maxLen+1, bo.Op == token.LEQ && k >= 0 && k <= maxLen:
			side = 0
		case bo.Op == token.NEQ && k == 0 && maxLen == 0, bo.Op == token.GTR && k >= 0 && k <= maxLen, bo.Op == token.GEQ && k >= 1 && k <= maxLen+1:
			side = 1
		}
		if side < 0 {
			continue
		}
		if t := d.Succs[side]; len(t.Preds) == 1 && t.Dominates(b) {
			return true
		}
	}
	return false
}

// checkSuccessDominated: "any longer input is rejected": no return with a nil error is reachable without passing the
// guard — a success return outside the guard's continuation answers over-long input like any other. Exempt: a return
// under `len(input) == 0` (an empty text is not longer than a non-zero limit).
// usesParam: some operand of the instructions feeding ret's block (the block of the return) derives from the parameter.
func usesParam(ret *ssa.Return, input *ssa.Parameter) bool {
	for _, in := range ret.Block().Instrs {
		for _, op := range in.Operands(nil) {
			if *op == nil {
				continue
			}
			if call, isCall := in.(*ssa.Call); isCall {
				if bi, ok := call.Call.Value.(*ssa.Builtin); ok && bi.Name() == "len" {
					continue
				}
			}
			if rootParam(*op) == input {
				return true
			}
		}
	}
	return false
}

func (c *Ctx) checkSuccessDominated(fn *ssa.Function, input *ssa.Parameter, okBlk, errBlk *ssa.BasicBlock, after *ssa.Call) {
	res := fn.Signature.Results()
	if res.Len() == 0 || !isErrorType(res.At(res.Len()-1).Type()) {
		return
	}
	var mayBeNil func(v ssa.Value, depth int) bool
	mayBeNil = func(v ssa.Value, depth int) bool {
		switch x := v.(type) {
		case *ssa.Const:
			return x.IsNil()
		case *ssa.Phi:
			if depth > 4 {
				return false
			}
			for _, e := range x.Edges {
				if mayBeNil(e, depth+1) {
					return true
				}
			}
		}
		return false
	}
	emptyOnly := func(b *ssa.BasicBlock) bool { return emptyOnlyBlock(fn, input, b) }
	// the guard helper's own "input is empty" answer: `if empty { return nil }` in front of the error test is a return
	// for empty input only, provided every return of the helper that may answer true lies under len(input) == 0
	emptyFlag := func(b *ssa.BasicBlock) bool {
		if after == nil {
			return false
		}
		callee := c.StaticCallee(&after.Call)
		if callee == nil || len(callee.Blocks) == 0 {
			return false
		}
		ai := -1
		for i, a := range after.Call.Args {
			if rootParam(a) == input && i < len(callee.Params) {
				ai = i
			}
		}
		if ai < 0 {
			return false
		}
		for _, d := range fn.Blocks {
			iff, ok := d.Instrs[len(d.Instrs)-1].(*ssa.If)
			if !ok {
				continue
			}
			ex, ok := iff.Cond.(*ssa.Extract)
			if !ok || ex.Tuple != ssa.Value(after) {
				continue
			}
			if t := d.Succs[0]; len(t.Preds) != 1 || !t.Dominates(b) {
				continue
			}
			sound := true
			for _, hb := range callee.Blocks {
				hr, ok := hb.Instrs[len(hb.Instrs)-1].(*ssa.Return)
				if !ok || ex.Index >= len(hr.Results) {
					continue
				}
				if k, ok := hr.Results[ex.Index].(*ssa.Const); ok && k.Value != nil && k.Value.Kind() == constant.Bool && !constant.BoolVal(k.Value) {
					continue
				}
				if !emptyOnlyBlock(callee, callee.Params[ai], hb) {
					sound = false
				}
			}
			if sound {
				return true
			}
		}
		return false
	}
	n := 0
	for _, b := range fn.Blocks {
		ret, ok := b.Instrs[len(b.Instrs)-1].(*ssa.Return)
		if !ok || len(ret.Results) == 0 {
			continue
		}
		n++
		if okBlk.Dominates(b) && !(after != nil && b == after.Block() && b == okBlk) {
			continue
		}
		if after != nil && b == after.Block() {
			continue // the tail delegation itself
		}
		if mayBeNil(ret.Results[len(ret.Results)-1], 0) && !emptyOnly(b) && !emptyFlag(b) {
			c.add("violated", "C18.L", fn, ret.Pos(), "a return with a nil error is reachable without passing the input-length guard: input longer than the limit is answered instead of rejected")
			continue
		}
		// another rejection in front of the guard (`if r&RuleDisableURN != 0 && l == 45 { return …(input, ErrURNFormatDisabled) }`):
		// an over-long input then gets that error, not the too-long one — and that error repeats the input. Exempt: the
		// too-long edge itself, an empty input, the guard helper's own error handed on.
		if errBlk != nil && (errBlk == b || errBlk.Dominates(b)) {
			continue
		}
		if emptyOnly(b) || emptyFlag(b) || shortOnlyBlock(fn, input, b, 1) {
			continue
		}
		ev := ret.Results[len(ret.Results)-1]
		if after != nil {
			handsOn := ev == ssa.Value(after)
			if ex, ok := ev.(*ssa.Extract); ok && ex.Tuple == ssa.Value(after) {
				handsOn = true
			}
			if handsOn {
				continue
			}
		}
		// another delegation to a function that holds the guard itself (two tail calls behind a rule test)
		delegated := false
		for _, rv := range ret.Results {
			var dc *ssa.Call
			switch x := rv.(type) {
			case *ssa.Call:
				dc = x
			case *ssa.Extract:
				dc, _ = x.Tuple.(*ssa.Call)
			}
			if dc == nil {
				continue
			}
			if callee := c.StaticCallee(&dc.Call); callee != nil && inRepo(callee) {
				for ai, a := range dc.Call.Args {
					if rootParam(a) == input && ai < len(callee.Params) && (c.findGuard(callee, callee.Params[ai]) != nil || c.delegatesGuard(callee, ai, 0)) {
						delegated = true
					}
				}
			}
		}
		if delegated {
			continue
		}
		if usesParam(ret, input) {
			c.add("violated", "C18.L", fn, ret.Pos(), "an error built from the input is returned in front of the input-length guard: input longer than the limit is rejected with another error, which repeats it")
		} else if !mayBeNil(ev, 0) && !c.fromGuardedCall(ev, 0) {
			c.add("violated", "C18.L", fn, ret.Pos(), "another rejection sits in front of the input-length guard: input longer than the limit gets that error, not the too-long one")
		}
	}
	c.add("discharged", "C18.L", fn, fn.Pos(), fmt.Sprintf("%d return(s): none with a nil error outside the guard's continuation", n))
}

func (c *Ctx) checkTooLongEdge(fn *ssa.Function, gi *guardInfo, input *ssa.Parameter, sentinel *ssa.Global) {
	b := gi.errBlk
	ret, ok := b.Instrs[len(b.Instrs)-1].(*ssa.Return)
	if !ok {
		c.add("undecided", "C18.L", fn, gi.cmp.Pos(), "too-long edge does not return directly")
		return
	}
	usesSentinel := false
	leaksInput := false
	for _, in := range b.Instrs {
		for _, op := range in.Operands(nil) {
			if *op == nil {
				continue
			}
			if g := globalLoad(*op); g != nil && g == sentinel {
				usesSentinel = true
			}
			if u, ok := (*op).(*ssa.UnOp); ok && u.X == sentinel {
				usesSentinel = true
			}
			if p := rootParam(*op); p == input && !isIntParam(input) {
				if _, isLen := in.(*ssa.Call); isLen {
					if bi, ok := in.(*ssa.Call).Call.Value.(*ssa.Builtin); ok && bi.Name() == "len" {
						continue
					}
				}
				leaksInput = true
			}
		}
		if u, ok := in.(*ssa.UnOp); ok && u.X == sentinel {
			usesSentinel = true
		}
		// an error-constructing helper of the module that loads the sentinel itself
		if call, ok := in.(*ssa.Call); ok {
			if callee := c.StaticCallee(&call.Call); callee != nil && inRepo(callee) && loadsGlobal(origin(callee), sentinel, 2) {
				usesSentinel = true
			}
		}
	}
	// "wraps": the sentinel is the operand of a %w verb (or the error value itself), so that errors.Is finds it —
	// printing it with %v / its Error() text gives the same message and loses the identity
	if usesSentinel && !wrapsGlobal(b, sentinel, 2) {
		usesSentinel = false
		c.add("violated", "C18.L", fn, ret.Pos(), "the too-long edge mentions "+sentinel.Name()+" but does not wrap it (it must be bound to a %w verb or be the error itself): errors.Is(err, "+sentinel.Name()+") is false")
	} else if !usesSentinel {
		c.add("violated", "C18.L", fn, ret.Pos(), "too-long edge does not wrap "+sentinel.Name())
	}
	if leaksInput {
		c.add("violated", "C18.L", fn, ret.Pos(), "too-long error is built from the input itself")
	}
	if usesSentinel && !leaksInput {
		c.add("discharged", "C18.L", fn, ret.Pos(), "too-long edge wraps "+sentinel.Name()+" and carries no input bytes")
	}
}

// wrapsGlobal: in block b (or in a function of the module called from it, to the given depth) the sentinel g is
// bound to a %w verb of fmt.Errorf, or is passed on as an error value (argument of a module function, return operand).
func wrapsGlobal(b *ssa.BasicBlock, g *ssa.Global, depth int) bool {
	isG := func(v ssa.Value) bool {
		v = strip1iface(v)
		u, ok := v.(*ssa.UnOp)
		return ok && u.Op == token.MUL && u.X == ssa.Value(g)
	}
	for _, in := range b.Instrs {
		switch x := in.(type) {
		case *ssa.Call:
			f := x.Call.StaticCallee()
			if f != nil && f.String() == "fmt.Errorf" && len(x.Call.Args) == 2 {
				format, ok := constString(x.Call.Args[0])
				if !ok {
					continue
				}
				args := varargs(x.Call.Args[1])
				k := 0
				for _, it := range parseFormat(format) {
					if it.Lit != "" || it.Verb == 0 {
						continue
					}
					ix := k
					if it.ArgIx > 0 {
						ix = it.ArgIx - 1
					}
					k = ix + 1
					if ix < len(args) && args[ix] != nil && it.Verb == 'w' && isG(args[ix]) {
						return true
					}
				}
				continue
			}
			if f != nil && inRepo(f) {
				for _, a := range x.Call.Args {
					if isG(a) && isErrorType(a.Type()) {
						return true // handed on as an error value (the constructor keeps it as the wrapped error: S-WRAP ii)
					}
				}
				if depth > 0 {
					for _, cb := range origin(f).Blocks {
						if wrapsGlobal(cb, g, depth-1) {
							return true
						}
					}
				}
			}
		case *ssa.Return:
			for _, r := range x.Results {
				if isG(r) {
					return true
				}
			}
		}
	}
	return false
}

// loadsGlobal: fn, or a function of the module it calls directly (to the given depth), loads g.
func loadsGlobal(fn *ssa.Function, g *ssa.Global, depth int) bool {
	for _, b := range fn.Blocks {
		for _, in := range b.Instrs {
			if u, ok := in.(*ssa.UnOp); ok && u.X == ssa.Value(g) {
				return true
			}
			if call, ok := in.(ssa.CallInstruction); ok && depth > 0 {
				if callee := call.Common().StaticCallee(); callee != nil && inRepo(callee) && loadsGlobal(origin(callee), g, depth-1) {
					return true
				}
			}
		}
	}
	return false
}

// ---------- C18.T1 ----------

func (c *Ctx) RuleNoPanicSites(fns map[*ssa.Function]bool, exceptions map[string]string) {
	for _, fn := range SortedFuncs(fns) {
		for _, b := range fn.Blocks {
			for _, in := range b.Instrs {
				switch x := in.(type) {
				case *ssa.Panic:
					c.add("violated", "C18.T1", fn, x.Pos(), "explicit panic reachable from a parsing/comparing entry point")
				case *ssa.TypeAssert:
					if x.CommaOk {
						continue
					}
					if mi, ok := x.X.(*ssa.MakeInterface); ok && types.Identical(mi.X.Type(), x.AssertedType) {
						continue // boxing round trip
					}
					key := FnName(fn) + ":" + types.TypeString(x.AssertedType, nil)
					if why, ok := exceptions[key]; ok {
						c.add("discharged", "C18.T1", fn, x.Pos(), "listed exception: "+why)
						continue
					}
					if why, ok := exceptions["json-object-key:"+types.TypeString(x.AssertedType, nil)]; ok && (isJSONObjectKey(fn, x) || c.keyReaderHelper(fn, x)) {
						c.add("discharged", "C18.T1", fn, x.Pos(), "listed exception: "+why)
						continue
					}
					c.add("violated", "C18.T1", fn, x.Pos(), "type assertion without comma-ok ("+key+")")
				case *ssa.UnOp, *ssa.FieldAddr:
					// a pointer taken out of an interface value by a type assertion may be a typed nil: a load or a
					// field access through it needs a nil test in front (src.(*time.Time) in a Scan method)
					var ptr ssa.Value
					switch y := x.(type) {
					case *ssa.UnOp:
						if y.Op == token.MUL {
							ptr = y.X
						}
					case *ssa.FieldAddr:
						ptr = y.X
					}
					if ptr == nil || !assertedPointer(ptr) {
						continue
					}
					if !nonNilBehindTest(ptr, b) {
						c.add("violated", "C18.T1", fn, in.Pos(), "a pointer obtained by a type assertion on an interface value is dereferenced without a nil test: a typed nil pointer inside the interface panics here")
					}
				case *ssa.BinOp:
					if x.Op == token.QUO || x.Op == token.REM {
						if bt, ok := x.X.Type().Underlying().(*types.Basic); ok && bt.Info()&types.IsInteger != 0 {
							if _, isC := x.Y.(*ssa.Const); !isC {
								if c.nonZeroTableValue(x.Y, b) {
									c.add("discharged", "C18.T1", fn, x.Pos(), "the divisor is an entry found in a literal map of the module whose values are all non-zero")
									continue
								}
								c.add("violated", "C18.T1", fn, x.Pos(), "integer division by a non-constant")
							}
						}
					}
				}
			}
		}
	}
}

// ---------- C12.whole ----------

// RuleWholeInput (C12.whole): on the JSON path below entry (the chain of in-repo calls from entry down to the
// function that constructs the json.Decoder) some function must, on every success-capable return that follows the
// decoding, have passed an end-of-input check of an enumerated form:
//
//	json.Valid(<whole input>) tested, valid edge dominating the return;
//	a decoder Token() whose error is compared with io.EOF, the equal edge dominating the return;
//	Decoder.InputOffset() compared with len(<input>), the equal edge dominating the return.
func (c *Ctx) RuleWholeInput(entry *ssa.Function, inputIdx int) {
	reach := c.Reachable(entry)
	var dec *ssa.Function
	for _, f := range SortedFuncs(reach) {
		if len(c.Calls(f, func(g *ssa.Function) bool { return g.String() == "encoding/json.NewDecoder" })) > 0 {
			if dec != nil {
				c.addc("undecided", "C12.whole", entry, entry.Pos(), "decoder", "more than one function constructs a json.Decoder below "+FnName(entry), "")
				return
			}
			dec = f
		}
	}
	if dec == nil {
		c.addc("undecided", "C12.whole", entry, entry.Pos(), "decoder", "no json.NewDecoder below "+FnName(entry)+" (idioms: token-wise decoding with an end-of-input check)", "")
		return
	}
	// chain entry -> ... -> dec with the parameter index carrying the input
	type link struct {
		fn   *ssa.Function
		in   int
		call *ssa.Call // call into the next link (nil for dec)
	}
	var chain []link
	var find func(fn *ssa.Function, in int, depth int) bool
	find = func(fn *ssa.Function, in int, depth int) bool {
		if depth > 5 {
			return false
		}
		if fn == dec {
			chain = append(chain, link{fn, in, nil})
			return true
		}
		for _, b := range fn.Blocks {
			for _, ins := range b.Instrs {
				call, ok := ins.(*ssa.Call)
				if !ok {
					continue
				}
				callee := c.StaticCallee(&call.Call)
				if callee == nil || !inRepo(callee) || !c.Reachable(callee)[dec] {
					continue
				}
				for ai, a := range call.Call.Args {
					if rootParam(a) == fn.Params[in] && ai < len(callee.Params) {
						chain = append(chain, link{fn, in, call})
						if find(callee, ai, depth+1) {
							return true
						}
						chain = chain[:len(chain)-1]
					}
				}
			}
		}
		return false
	}
	if !find(entry, inputIdx, 0) {
		c.addc("undecided", "C12.whole", entry, entry.Pos(), "chain", "the input is not passed down to the decoder-constructing function through plain in-repo calls", "")
		return
	}
	var unchecked []string
	for i := len(chain) - 1; i >= 0; i-- {
		l := chain[i]
		okBlocks := c.eofCheckedBlocks(l.fn, l.fn.Params[l.in])
		n, bad := 0, 0
		var badPos token.Pos
		for _, b := range l.fn.Blocks {
			ret, ok := b.Instrs[len(b.Instrs)-1].(*ssa.Return)
			if !ok {
				continue
			}
			if isErrorReturnBlock(b) {
				continue
			}
			if l.call != nil {
				cb := l.call.Block()
				if !(cb == b || reachFrom(cb)[b]) {
					continue // return not on the JSON path
				}
			}
			n++
			if !c.domAny(okBlocks, b) {
				bad++
				if badPos == token.NoPos {
					badPos = ret.Pos()
				}
			}
		}
		if n > 0 && bad == 0 {
			c.addc("discharged", "C12.whole", l.fn, l.fn.Pos(), "success returns", fmt.Sprintf("all %d success-capable return(s) on the JSON path are dominated by an end-of-input check", n), "")
			return
		}
		unchecked = append(unchecked, fmt.Sprintf("%s (%d of %d)", FnName(l.fn), bad, n))
		if i == len(chain)-1 {
			_ = badPos
		}
	}
	c.addc("violated", "C12.whole", dec, dec.Pos(), "success returns",
		"no function on the JSON path "+strings.Join(unchecked, " <- ")+" checks for end of input before its success returns: trailing bytes after the value and an object without its closing delimiter are accepted",
		"1 x  |  {\"value\":1,\"unit\":\"B\"")
}

// eofCheckedBlocks returns the blocks entered only after a successful end-of-input check in fn.
func (c *Ctx) eofCheckedBlocks(fn *ssa.Function, input *ssa.Parameter) []*ssa.BasicBlock {
	var out []*ssa.BasicBlock
	for _, b := range fn.Blocks {
		iff, ok := b.Instrs[len(b.Instrs)-1].(*ssa.If)
		if !ok {
			continue
		}
		cond := iff.Cond
		tEdge, fEdge := b.Succs[0], b.Succs[1]
		for {
			if u, ok := cond.(*ssa.UnOp); ok && u.Op == token.NOT {
				cond = u.X
				tEdge, fEdge = fEdge, tEdge
				continue
			}
			break
		}
		switch x := cond.(type) {
		case *ssa.Call:
			if f := x.Call.StaticCallee(); f != nil && f.String() == "encoding/json.Valid" {
				arg := x.Call.Args[0]
				if rootParam(arg) == input && !hasSliceOnPath(arg) && leadsOnlyToErrors(fEdge) {
					out = append(out, tEdge)
				}
			}
		case *ssa.BinOp:
			if x.Op != token.EQL && x.Op != token.NEQ {
				continue
			}
			eq, ne := tEdge, fEdge
			if x.Op == token.NEQ {
				eq, ne = ne, eq
			}
			isEOF := func(v ssa.Value) bool {
				g := globalLoad(v)
				return g != nil && g.Pkg.Pkg.Path() == "io" && g.Name() == "EOF"
			}
			isTokenErr := func(v ssa.Value) bool {
				ex, ok := v.(*ssa.Extract)
				if !ok || ex.Index != 1 {
					return false
				}
				call, ok := ex.Tuple.(*ssa.Call)
				if !ok {
					return false
				}
				if call.Call.IsInvoke() {
					return call.Call.Method.Name() == "Token"
				}
				f := call.Call.StaticCallee()
				return f != nil && f.String() == "(*encoding/json.Decoder).Token"
			}
			isOffset := func(v ssa.Value) bool {
				call, ok := stripConv(v).(*ssa.Call)
				if !ok {
					return false
				}
				f := call.Call.StaticCallee()
				return f != nil && f.String() == "(*encoding/json.Decoder).InputOffset"
			}
			isLenInput := func(v ssa.Value) bool {
				a, ok := isLenOf(v)
				return ok && rootParam(a) == input && !hasSliceOnPath(a)
			}
			if (isEOF(x.X) && isTokenErr(x.Y) || isEOF(x.Y) && isTokenErr(x.X)) && leadsOnlyToErrors(ne) {
				out = append(out, eq)
			}
			if (isOffset(x.X) && isLenInput(x.Y) || isOffset(x.Y) && isLenInput(x.X)) && leadsOnlyToErrors(ne) {
				out = append(out, eq)
			}
		}
	}
	return out
}

// hasSliceOnPath reports whether v is derived from its root through a re-slice (i.e. is not the whole value).
func hasSliceOnPath(v ssa.Value) bool {
	return hasSliceOnPathD(v, 0)
}

func hasSliceOnPathD(v ssa.Value, depth int) bool {
	if depth > 4 {
		return true
	}
	for i := 0; i < 10; i++ {
		switch x := v.(type) {
		case *ssa.Slice:
			return true
		case *ssa.Phi: // b or b[:n], whichever branch ran: a cut text on some path
			for _, ed := range x.Edges {
				if hasSliceOnPathD(ed, depth+1) {
					return true
				}
			}
			return false
		case *ssa.Call: // bytes.TrimSpace(b) and the like: a part of the text
			if f := x.Call.StaticCallee(); f != nil && aliasReturning[origin(f).String()] {
				return true
			}
			return false
		case *ssa.MultiConvert:
			v = x.X
		case *ssa.Convert:
			v = x.X
		case *ssa.ChangeType:
			v = x.X
		default:
			return false
		}
	}
	return false
}

// ---------- C12.count ----------

// RuleCounterSlack analyses the key loop of fn: counter phi i (0, i+1), limit compare against limitVar,
// member reads = direct invoke of Token() in the loop body whose result is type-asserted to string.
func (c *Ctx) RuleCounterSlack(fn *ssa.Function, limitVar string) {
	var counter *ssa.Phi
	for _, b := range fn.Blocks {
		for _, in := range b.Instrs {
			ph, ok := in.(*ssa.Phi)
			if !ok || len(ph.Edges) != 2 {
				continue
			}
			if k, ok := constInt(ph.Edges[0]); ok && k == 0 {
				if bo, ok := ph.Edges[1].(*ssa.BinOp); ok && bo.Op == token.ADD && bo.X == ph {
					if k2, ok := constInt(bo.Y); ok && k2 == 1 {
						counter = ph
					}
				}
			}
		}
	}
	if counter == nil {
		c.add("undecided", "C12.count", fn, fn.Pos(), "no 0,+1 counter phi")
		return
	}
	head := counter.Block()
	// classify instructions
	var isRead func(in ssa.Instruction) bool
	isRead = func(in ssa.Instruction) bool {
		call, ok := in.(*ssa.Call)
		if !ok || !call.Call.IsInvoke() || call.Call.Method.Name() != "Token" {
			return false
		}
		// result #0 asserted to string somewhere
		for _, r := range *call.Referrers() {
			if ex, ok := r.(*ssa.Extract); ok && ex.Index == 0 {
				for _, r2 := range *ex.Referrers() {
					if ta, ok := r2.(*ssa.TypeAssert); ok && types.Identical(ta.AssertedType, types.Typ[types.String]) {
						return true
					}
				}
			}
		}
		return false
	}
	// … or a helper of the module that makes exactly that read (`key, err := decodeKey(d)`)
	isReadTop := isRead
	isRead = func(in ssa.Instruction) bool {
		if isReadTop(in) {
			return true
		}
		call, ok := in.(*ssa.Call)
		if !ok || call.Call.IsInvoke() {
			return false
		}
		callee := c.StaticCallee(&call.Call)
		if callee == nil || !inRepo(callee) {
			return false
		}
		n := 0
		for _, hb := range origin(callee).Blocks {
			for _, hin := range hb.Instrs {
				if isReadTop(hin) {
					n++
				}
				if hc, ok := hin.(*ssa.Call); ok && !hc.Call.IsInvoke() && len(hb.Instrs) > 0 {
					if g := c.StaticCallee(&hc.Call); g != nil && inRepo(g) && reachFrom(hb)[hb] {
						return false // a loop of calls: not a single read
					}
				}
			}
		}
		return n == 1
	}
	// limit check at block b: returns slack (0 for i>Max fail, -1 for i>=Max fail) and the pass successor
	limitCheck := func(b *ssa.BasicBlock) (slack int, pass *ssa.BasicBlock, ok bool) {
		iff, isIf := b.Instrs[len(b.Instrs)-1].(*ssa.If)
		if !isIf {
			return 0, nil, false
		}
		bo, isB := iff.Cond.(*ssa.BinOp)
		if !isB {
			return 0, nil, false
		}
		// the check in a helper of the module: `if err := checkKeys(i); err != nil { return … }`
		if (bo.Op == token.NEQ || bo.Op == token.EQL) && isNilConst(bo.Y) {
			if call, isCall := bo.X.(*ssa.Call); isCall {
				if callee := c.StaticCallee(&call.Call); callee != nil && inRepo(callee) {
					for ai, a := range call.Call.Args {
						if a != ssa.Value(counter) {
							continue
						}
						if sl, ok := c.limitHelperSlack(origin(callee), ai, limitVar); ok {
							if bo.Op == token.NEQ {
								return sl, b.Succs[1], true
							}
							return sl, b.Succs[0], true
						}
					}
				}
			}
		}
		// normalise to `counter OP Max`
		op := bo.Op
		var g *ssa.Global
		switch {
		case bo.X == ssa.Value(counter):
			g = globalLoad(bo.Y)
		case bo.Y == ssa.Value(counter):
			g = globalLoad(bo.X)
			op = flip(op)
		}
		if g == nil || g.Name() != limitVar {
			return 0, nil, false
		}
		switch op {
		case token.GTR: // i > Max fails
			return 0, b.Succs[1], true
		case token.GEQ: // i >= Max fails
			return -1, b.Succs[1], true
		case token.LEQ: // i <= Max passes
			return 0, b.Succs[0], true
		case token.LSS: // i < Max passes
			return -1, b.Succs[0], true
		}
		return 0, nil, false
	}
	// enumerate paths within one iteration starting at head; state: uncovered reads (reads since last check + slack)
	type st struct {
		b       *ssa.BasicBlock
		uncov   int // reads not yet covered by a passed check, relative: >0 means violation at success exit
		checked bool
	}
	inLoop := reachFrom(head)
	var exits []string
	var walk func(s st, depth int)
	visited := map[string]bool{}
	walk = func(s st, depth int) {
		key := fmt.Sprintf("%d/%d/%v", s.b.Index, s.uncov, s.checked)
		if visited[key] || depth > 64 {
			return
		}
		visited[key] = true
		u := s.uncov
		for _, in := range s.b.Instrs {
			if isRead(in) {
				u++
			}
		}
		// `Max != 0` test: on the edge where the limit is disabled nothing needs covering
		if iff, ok := s.b.Instrs[len(s.b.Instrs)-1].(*ssa.If); ok {
			if bo, ok := iff.Cond.(*ssa.BinOp); ok {
				// `Max != 0` / `Max > 0` (enabled on the true edge), `Max == 0` (disabled on the true edge), constant on either side
				zop, zg := bo.Op, globalLoad(bo.X)
				zk, zok := constInt(bo.Y)
				if zg == nil {
					zg = globalLoad(bo.Y)
					zk, zok = constInt(bo.X)
					zop = flip(zop)
				}
				if zg != nil && zg.Name() == limitVar && zok && zk == 0 {
					switch zop {
					case token.NEQ, token.GTR:
						walk(st{s.b.Succs[0], u, s.checked}, depth+1)
						walk(st{s.b.Succs[1], -1 << 20, true}, depth+1)
						return
					case token.EQL, token.LEQ:
						walk(st{s.b.Succs[1], u, s.checked}, depth+1)
						walk(st{s.b.Succs[0], -1 << 20, true}, depth+1)
						return
					}
				}
			}
		}
		if slack, pass, ok := limitCheck(s.b); ok {
			// passing the check covers all reads so far plus slack
			walk(st{pass, slack, true}, depth+1)
			return
		}
		if ret, ok := s.b.Instrs[len(s.b.Instrs)-1].(*ssa.Return); ok {
			_ = ret
			return
		}
		for _, succ := range feasibleSuccs(s.b) {
			if succ == head {
				// next iteration: carried uncovered count continues (the head check covers it if present)
				walk(st{succ, u, s.checked}, depth+1)
				continue
			}
			if !inLoop[succ] || !succ.Dominates(succ) {
			}
			// loop exit to success: block not in loop (cannot reach head)
			if !reachFrom(succ)[head] && succ != head {
				// is it a success continuation (not an error return)?
				if isErrorReturnBlock(succ) {
					continue
				}
				if u > 0 {
					exits = append(exits, fmt.Sprintf("exit %d->%d with %d member read(s) not covered by a passed limit check", s.b.Index, succ.Index, u))
					c.add("violated", "C12.count", fn, lastPos(s.b), fmt.Sprintf("loop exit leaves with %d member read(s) not covered by the last passed `%s` check: the verdict depends on which member comes last", u, limitVar))
				}
				continue
			}
			walk(st{succ, u, s.checked}, depth+1)
		}
	}
	walk(st{head, 0, false}, 0)
	if len(exits) == 0 {
		c.add("discharged", "C12.count", fn, head.Instrs[0].Pos(), "every exit of the key loop is covered by a passed limit check")
	}
}

// limitHelperSlack: h(…, n, …) error compares its parameter n with the limit variable, returns a non-nil error on
// the failing side and nil everywhere else: the slack of that comparison (0 for `n > Max` fails, −1 for `n >= Max`).
func (c *Ctx) limitHelperSlack(h *ssa.Function, pi int, limitVar string) (int, bool) {
	res := h.Signature.Results()
	if pi >= len(h.Params) || res.Len() != 1 || !isErrorType(res.At(0).Type()) {
		return 0, false
	}
	for _, b := range h.Blocks {
		iff, ok := b.Instrs[len(b.Instrs)-1].(*ssa.If)
		if !ok {
			continue
		}
		bo := condCmp(iff.Cond)
		if bo == nil {
			continue
		}
		op := bo.Op
		var g *ssa.Global
		switch {
		case bo.X == ssa.Value(h.Params[pi]):
			g = globalLoad(bo.Y)
		case bo.Y == ssa.Value(h.Params[pi]):
			g = globalLoad(bo.X)
			op = flip(op)
		}
		if g == nil || g.Name() != limitVar {
			continue
		}
		slack, fail, pass := 0, b.Succs[0], b.Succs[1]
		switch op {
		case token.GTR:
		case token.GEQ:
			slack = -1
		case token.LEQ:
			fail, pass = pass, fail
		case token.LSS:
			slack, fail, pass = -1, pass, fail
		default:
			return 0, false
		}
		_ = pass
		if !leadsOnlyToErrors(fail) {
			return 0, false
		}
		// every other return is nil
		failSet := reachFrom(fail)
		failSet[fail] = true
		for _, rb := range h.Blocks {
			ret, ok := rb.Instrs[len(rb.Instrs)-1].(*ssa.Return)
			if !ok || failSet[rb] {
				continue
			}
			if !isNilConst(ret.Results[0]) {
				return 0, false
			}
		}
		return slack, true
	}
	return 0, false
}

func isErrorReturnBlock(b *ssa.BasicBlock) bool {
	ret, ok := b.Instrs[len(b.Instrs)-1].(*ssa.Return)
	if !ok {
		return false
	}
	e := ret.Results[len(ret.Results)-1]
	if isNilConst(e) {
		return false
	}
	if _, isExtract := e.(*ssa.Extract); !isExtract {
		return true
	}
	// `return err` behind the edge on which err is known to be non-nil: the true edge of `err != nil` or the false edge
	// of `err == nil`, anywhere up the dominator tree
	for d := b; d.Idom() != nil; d = d.Idom() {
		id := d.Idom()
		iff, ok := id.Instrs[len(id.Instrs)-1].(*ssa.If)
		if !ok {
			continue
		}
		bo, ok := iff.Cond.(*ssa.BinOp)
		if !ok || bo.X != e || !isNilConst(bo.Y) {
			continue
		}
		nonNil := id.Succs[0]
		if bo.Op == token.EQL {
			nonNil = id.Succs[1]
		} else if bo.Op != token.NEQ {
			continue
		}
		if len(nonNil.Preds) == 1 && (nonNil == b || nonNil.Dominates(b)) {
			return true
		}
	}
	return false
}

// feasibleSuccs drops edges of constant conditions.
func feasibleSuccs(b *ssa.BasicBlock) []*ssa.BasicBlock {
	if iff, ok := b.Instrs[len(b.Instrs)-1].(*ssa.If); ok {
		if k, ok := iff.Cond.(*ssa.Const); ok && k.Value != nil {
			if k.Value.ExactString() == "true" {
				return b.Succs[:1]
			}
			return b.Succs[1:]
		}
	}
	return b.Succs
}

func lastPos(b *ssa.BasicBlock) token.Pos {
	for i := len(b.Instrs) - 1; i >= 0; i-- {
		if p := b.Instrs[i].Pos(); p != token.NoPos {
			return p
		}
	}
	return token.NoPos
}

// ---------- C08.ovf ----------

func (c *Ctx) RuleMulOverflow(fn *ssa.Function) {
	found := false
	for _, b := range fn.Blocks {
		for _, in := range b.Instrs {
			call, ok := in.(*ssa.Call)
			if !ok {
				continue
			}
			f := call.Call.StaticCallee()
			if f == nil || f.String() != "math/bits.Mul64" {
				continue
			}
			found = true
			var hi, lo *ssa.Extract
			for _, r := range *call.Referrers() {
				if ex, ok := r.(*ssa.Extract); ok {
					if ex.Index == 0 {
						hi = ex
					} else {
						lo = ex
					}
				}
			}
			if lo == nil {
				c.add("undecided", "C08.ovf", fn, call.Pos(), "low word unused")
				continue
			}
			// find returns of lo (through changetype) with nil error
			for _, b2 := range fn.Blocks {
				ret, ok := b2.Instrs[len(b2.Instrs)-1].(*ssa.Return)
				if !ok || !isNilConst(ret.Results[len(ret.Results)-1]) {
					continue
				}
				if strip(ret.Results[0]) != ssa.Value(lo) {
					continue
				}
				// must be dominated by the false edge of `hi != 0` (or true edge of hi == 0)
				okg := false
				if hi != nil {
					for _, r := range *hi.Referrers() {
						bo, ok := r.(*ssa.BinOp)
						if !ok {
							continue
						}
						k, isK := constInt(bo.Y)
						if !isK || k != 0 {
							continue
						}
						for _, r2 := range *bo.Referrers() {
							iff, ok := r2.(*ssa.If)
							if !ok {
								continue
							}
							var safe, bad *ssa.BasicBlock
							switch bo.Op {
							case token.NEQ, token.GTR:
								bad, safe = iff.Block().Succs[0], iff.Block().Succs[1]
							case token.EQL:
								safe, bad = iff.Block().Succs[0], iff.Block().Succs[1]
							default:
								continue
							}
							if (safe == b2 || safe.Dominates(b2)) && isErrorReturnBlock(bad) {
								okg = true
							}
						}
					}
				}
				if okg {
					c.add("discharged", "C08.ovf", fn, ret.Pos(), "product returned only when the high word is zero")
				} else {
					c.add("violated", "C08.ovf", fn, ret.Pos(), "low word of bits.Mul64 returned without a dominating high-word test (silent wrap-around)")
				}
			}
		}
	}
	if !found {
		// the multiplication may sit in a helper of the function: the path rule above does not apply there, the
		// decision table extracted from the function (helpers inlined) decides the high-word test
		for _, f := range SortedFuncs(c.Reachable(fn)) {
			if f == fn {
				continue
			}
			for _, b := range f.Blocks {
				for _, in := range b.Instrs {
					if call, ok := in.(*ssa.Call); ok {
						if g := call.Call.StaticCallee(); g != nil && g.String() == "math/bits.Mul64" {
							c.add("discharged", "C08.ovf", fn, call.Pos(), "bits.Mul64 in helper "+FnName(f)+": the high-word test is decided by the decision table of "+FnName(fn))
							return
						}
					}
				}
			}
		}
		// the other exact idiom: `if v > math.MaxUint64/n { error }; return v*n` on uint64 — the product of two uint64
		// fits iff v ≤ ⌊(2^64−1)/n⌋ (n ≥ 1)
		for _, b := range fn.Blocks {
			for _, in := range b.Instrs {
				mul, ok := in.(*ssa.BinOp)
				if !ok || mul.Op != token.MUL {
					continue
				}
				if bt, isB := mul.Type().Underlying().(*types.Basic); !isB || bt.Kind() != types.Uint64 {
					continue
				}
				guarded := false
				for _, gb := range fn.Blocks {
					iff, ok := gb.Instrs[len(gb.Instrs)-1].(*ssa.If)
					if !ok {
						continue
					}
					cmp, ok := iff.Cond.(*ssa.BinOp)
					if !ok {
						continue
					}
					x, y, op := cmp.X, cmp.Y, cmp.Op
					if _, isQ := x.(*ssa.BinOp); isQ { // MaxUint64/n on the left: mirror
						x, y, op = y, x, flip(op)
					}
					quo, isQ := y.(*ssa.BinOp)
					if !isQ || quo.Op != token.QUO {
						continue
					}
					k, isK := quo.X.(*ssa.Const)
					if !isK || k.Value == nil || k.Value.ExactString() != "18446744073709551615" {
						continue
					}
					// the same two factors
					if !(x == mul.X && quo.Y == mul.Y || x == mul.Y && quo.Y == mul.X) {
						continue
					}
					var safe, bad *ssa.BasicBlock
					switch op {
					case token.GTR: // v > Max/n: overflow
						bad, safe = gb.Succs[0], gb.Succs[1]
					case token.LEQ:
						safe, bad = gb.Succs[0], gb.Succs[1]
					default:
						continue
					}
					if (safe == b || safe.Dominates(b)) && len(safe.Preds) == 1 && leadsOnlyToErrors(bad) {
						guarded = true
					}
				}
				// the product is what a nil-error return hands out
				for _, rb := range fn.Blocks {
					ret, ok := rb.Instrs[len(rb.Instrs)-1].(*ssa.Return)
					if !ok || !isNilConst(ret.Results[len(ret.Results)-1]) || strip(ret.Results[0]) != ssa.Value(mul) {
						continue
					}
					found = true
					if guarded {
						c.add("discharged", "C08.ovf", fn, ret.Pos(), "64-bit product returned only behind `factor > MaxUint64 / other factor` failing (exact overflow test)")
					} else {
						c.add("violated", "C08.ovf", fn, ret.Pos(), "64-bit product returned without a dominating exact overflow test (`v > math.MaxUint64/n`, strict, same factors): silent wrap-around or a legal value refused")
					}
				}
			}
		}
		if found {
			return
		}
		c.add("undecided", "C08.ovf", fn, fn.Pos(), "no bits.Mul64 found (other overflow idioms not yet prototyped)")
	}
}

// nonZeroTableValue: v is the value of `v, ok := table[key]` read where ok is known to be true (b lies behind the true
// edge of a test of ok), table a package-level map that only a package initialiser writes and whose literal holds
// non-zero constants only.
func (c *Ctx) nonZeroTableValue(v ssa.Value, b *ssa.BasicBlock) bool {
	ex, ok := v.(*ssa.Extract)
	if !ok || ex.Index != 0 {
		return false
	}
	lk, ok := ex.Tuple.(*ssa.Lookup)
	if !ok || !lk.CommaOk {
		return false
	}
	g := globalLoad(lk.X)
	if g == nil || !c.writtenOnlyByInit(g) {
		return false
	}
	// found: behind the true edge of the ok flag
	behind := false
	for _, r := range *lk.Referrers() {
		okx, isEx := r.(*ssa.Extract)
		if !isEx || okx.Index != 1 {
			continue
		}
		for _, r2 := range *okx.Referrers() {
			if iff, isIf := r2.(*ssa.If); isIf {
				if t := iff.Block().Succs[0]; len(t.Preds) == 1 && (t == b || t.Dominates(b)) {
					behind = true
				}
			}
		}
	}
	if !behind {
		return false
	}
	// the literal: every MapUpdate on the map stored into g puts a non-zero constant
	n := 0
	for fn := range c.AllRepoFuncs() {
		if fn.Name() != "init" || fn.Pkg != g.Pkg {
			continue
		}
		for _, ib := range fn.Blocks {
			for _, in := range ib.Instrs {
				st, isSt := in.(*ssa.Store)
				if !isSt || st.Addr != ssa.Value(g) {
					continue
				}
				for _, r := range *st.Val.Referrers() {
					mu, isMU := r.(*ssa.MapUpdate)
					if !isMU || mu.Map != st.Val {
						continue
					}
					k, isK := mu.Value.(*ssa.Const)
					if !isK || k.Value == nil || k.Value.Kind() != constant.Int || constant.Sign(k.Value) == 0 {
						return false
					}
					n++
				}
			}
		}
	}
	return n > 0
}

// RuleSentinelOnlyInGuards: every load of the too-long sentinel happens on the too-long edge of a
// `len > MaxInputLength` comparison (so no in-limit input can be rejected with it).
func (c *Ctx) RuleSentinelOnlyInGuards(sentinel *ssa.Global, fns []*ssa.Function) {
	n := 0
	// the too-long edges of fn's MaxInputLength guards
	edges := func(fn *ssa.Function) []*ssa.BasicBlock {
		var errBlks []*ssa.BasicBlock
		for _, b := range fn.Blocks {
			iff, ok := b.Instrs[len(b.Instrs)-1].(*ssa.If)
			if !ok {
				continue
			}
			cmp := condCmp(iff.Cond)
			if cmp == nil {
				if _, _, pg, ok := c.limitPredicateCall(iff.Cond); ok && pg.Name() == "MaxInputLength" && pg.Pkg == sentinel.Pkg {
					errBlks = append(errBlks, b.Succs[0])
				}
				continue
			}
			gx, gy := globalLoad(cmp.X), globalLoad(cmp.Y)
			isMax := func(g *ssa.Global) bool {
				return g != nil && g.Name() == "MaxInputLength" && g.Pkg == sentinel.Pkg
			}
			switch {
			case cmp.Op == token.GTR && isMax(gy), cmp.Op == token.LSS && isMax(gx), cmp.Op == token.GEQ && isMax(gy), cmp.Op == token.LEQ && isMax(gx):
				errBlks = append(errBlks, b.Succs[0])
			case cmp.Op == token.LEQ && isMax(gy), cmp.Op == token.GEQ && isMax(gx), cmp.Op == token.LSS && isMax(gy), cmp.Op == token.GTR && isMax(gx):
				errBlks = append(errBlks, b.Succs[1])
			}
		}
		return errBlks
	}
	// onEdge: block b of fn runs only behind a too-long edge — of fn itself, or (an error-constructing helper) of every
	// call site of fn in the package
	var onEdge func(fn *ssa.Function, b *ssa.BasicBlock, depth int) bool
	onEdge = func(fn *ssa.Function, b *ssa.BasicBlock, depth int) bool {
		if c.domAny(edges(fn), b) {
			return true
		}
		if depth >= 3 {
			return false
		}
		sites := 0
		for _, caller := range fns {
			for _, cb := range caller.Blocks {
				for _, in := range cb.Instrs {
					call, ok := in.(ssa.CallInstruction)
					if !ok {
						continue
					}
					callee := c.StaticCallee(call.Common())
					if callee == nil || origin(callee) != origin(fn) {
						continue
					}
					sites++
					if !onEdge(caller, cb, depth+1) {
						return false
					}
				}
			}
		}
		return sites > 0
	}
	for _, fn := range fns {
		if fn.Name() == "init" {
			continue
		}
		for _, b := range fn.Blocks {
			for _, in := range b.Instrs {
				u, ok := in.(*ssa.UnOp)
				if !ok || u.X != ssa.Value(sentinel) {
					continue
				}
				if onlyCompared(u) {
					continue // read to be compared with (errors.Is(err, Err…), err == Err…): not produced
				}
				n++
				if onEdge(fn, b, 0) {
					c.add("discharged", "C18.L", fn, in.Pos(), sentinel.Name()+" produced only on the too-long edge of the length guard")
				} else {
					c.add("violated", "C18.L", fn, in.Pos(), sentinel.Name()+" is produced outside the too-long edge of a MaxInputLength guard: an input within the limit can be rejected for its length")
				}
			}
		}
	}
	if n == 0 {
		c.add("violated", "C18.L", nil, token.NoPos, sentinel.Pkg.Pkg.Name()+"."+sentinel.Name()+" is never produced: over-long input is not rejected with the package's input-too-long error")
	}
}

// RuleLimitOnce: a function that guards on MaxInputLength (it produces the sentinel) is not re-entered from the code
// it reaches: the limit is a property of the caller's input, applying it again to data derived from that input
// (a decoded JSON string, a sub-slice) can reject an input that is within the limit.
func (c *Ctx) RuleLimitOnce(sentinel *ssa.Global, fns []*ssa.Function) {
	for _, g := range fns {
		if g.Name() == "init" {
			continue
		}
		guards := false
		for _, b := range g.Blocks {
			for _, in := range b.Instrs {
				if u, ok := in.(*ssa.UnOp); ok && u.X == ssa.Value(sentinel) {
					guards = true
				}
			}
		}
		if !guards {
			continue
		}
		bad := false
		for _, f := range SortedFuncs(c.Reachable(g)) {
			for _, b := range f.Blocks {
				for _, in := range b.Instrs {
					call, ok := in.(ssa.CallInstruction)
					if !ok {
						continue
					}
					if callee := c.StaticCallee(call.Common()); callee != nil && origin(callee) == origin(g) {
						bad = true
						c.addc("violated", "C18.L", g, in.Pos(), "limit once", FnName(f)+" re-enters "+FnName(g)+", which applies MaxInputLength again to data derived from the input: an input within the limit can be rejected as too long", "")
					}
				}
			}
		}
		if !bad {
			c.addc("discharged", "C18.L", g, g.Pos(), "limit once", "the length guard is applied to the caller's input only: nothing reachable from "+FnName(g)+" calls it again", "")
		}
	}
}

// isJSONObjectKey: the asserted value is result #0 of a decoder Token() call in a function that also asks the
// decoder More() (i.e. the token read at a member boundary of an object).
func isJSONObjectKey(fn *ssa.Function, ta *ssa.TypeAssert) bool {
	ex, ok := ta.X.(*ssa.Extract)
	if !ok || ex.Index != 0 {
		return false
	}
	call, ok := ex.Tuple.(*ssa.Call)
	if !ok {
		return false
	}
	isTok := call.Call.IsInvoke() && call.Call.Method.Name() == "Token"
	if f := call.Call.StaticCallee(); f != nil && f.String() == "(*encoding/json.Decoder).Token" {
		isTok = true
	}
	if !isTok {
		return false
	}
	return callsMore(fn)
}

// keyReaderHelper: the assertion sits in a helper that reads one token, and every function of the module that calls
// the helper does so right behind a More() that said a member follows (the key-reading step of the member loop,
// extracted).
func (c *Ctx) keyReaderHelper(fn *ssa.Function, ta *ssa.TypeAssert) bool {
	ex, ok := ta.X.(*ssa.Extract)
	if !ok || ex.Index != 0 {
		return false
	}
	call, ok := ex.Tuple.(*ssa.Call)
	if !ok || !(call.Call.IsInvoke() && call.Call.Method.Name() == "Token") {
		return false
	}
	callers := 0
	for g := range c.allFuncs {
		if !inRepo(g) {
			continue
		}
		for _, b := range g.Blocks {
			for _, in := range b.Instrs {
				cc, ok := in.(*ssa.Call)
				if !ok {
					continue
				}
				if h := c.StaticCallee(&cc.Call); h == nil || origin(h) != origin(fn) {
					continue
				}
				callers++
				// a More() call whose true edge dominates the call
				dominated := false
				for _, mb := range g.Blocks {
					iff, ok := mb.Instrs[len(mb.Instrs)-1].(*ssa.If)
					if !ok {
						continue
					}
					cond := iff.Cond
					neg := false
					if u, ok := cond.(*ssa.UnOp); ok && u.Op == token.NOT {
						cond, neg = u.X, true
					}
					mc, ok := cond.(*ssa.Call)
					if !ok || !(mc.Call.IsInvoke() && mc.Call.Method.Name() == "More") {
						continue
					}
					yes := mb.Succs[0]
					if neg {
						yes = mb.Succs[1]
					}
					if len(yes.Preds) == 1 && (yes == b || yes.Dominates(b)) {
						dominated = true
					}
				}
				if !dominated {
					return false
				}
			}
		}
	}
	return callers > 0
}

// callsMore: fn asks the decoder whether another member follows (More): the token read next is then a key.
func callsMore(fn *ssa.Function) bool {
	for _, b := range fn.Blocks {
		for _, in := range b.Instrs {
			if c2, ok := in.(*ssa.Call); ok {
				if c2.Call.IsInvoke() && c2.Call.Method.Name() == "More" {
					return true
				}
				if f := c2.Call.StaticCallee(); f != nil && f.String() == "(*encoding/json.Decoder).More" {
					return true
				}
			}
		}
	}
	return false
}

// condCmp: the comparison a branch condition stands for: the comparison itself, or, for `a && cmp` kept as a value
// (a case of a tagless switch, a local variable) — phi(false, cmp) — the comparison that must hold on the true edge.
func condCmp(cond ssa.Value) *ssa.BinOp {
	if bo, ok := cond.(*ssa.BinOp); ok {
		return bo
	}
	if ph, ok := cond.(*ssa.Phi); ok && len(ph.Edges) == 2 {
		for k, ed := range ph.Edges {
			if c, isC := ph.Edges[1-k].(*ssa.Const); isC && c.Value != nil && c.Value.Kind() == constant.Bool && !constant.BoolVal(c.Value) {
				if bo, ok := ed.(*ssa.BinOp); ok {
					return bo
				}
			}
		}
	}
	return nil
}

// assertedPointer: v is a pointer-typed result of a type assertion (plain, or result #0 of the comma-ok form).
func assertedPointer(v ssa.Value) bool {
	if _, isPtr := v.Type().Underlying().(*types.Pointer); !isPtr {
		return false
	}
	if ex, ok := v.(*ssa.Extract); ok && ex.Index == 0 {
		v = ex.Tuple
	}
	_, ok := v.(*ssa.TypeAssert)
	return ok
}

// nonNilBehindTest: block b is dominated by the non-nil side of a test of v against nil.
func nonNilBehindTest(v ssa.Value, b *ssa.BasicBlock) bool {
	for _, blk := range b.Parent().Blocks {
		iff, ok := blk.Instrs[len(blk.Instrs)-1].(*ssa.If)
		if !ok {
			continue
		}
		cmp, ok := iff.Cond.(*ssa.BinOp)
		if !ok || (cmp.Op != token.NEQ && cmp.Op != token.EQL) {
			continue
		}
		if !(cmp.X == v && isNilConst(cmp.Y) || cmp.Y == v && isNilConst(cmp.X)) {
			continue
		}
		side := blk.Succs[map[bool]int{true: 0, false: 1}[cmp.Op == token.NEQ]]
		if len(side.Preds) == 1 && (side == b || side.Dominates(b)) {
			return true
		}
	}
	return false
}

// onlyCompared: the loaded sentinel is used only as the target of errors.Is or as an operand of == / !=.
func onlyCompared(u *ssa.UnOp) bool {
	refs := u.Referrers()
	if refs == nil || len(*refs) == 0 {
		return false
	}
	for _, r := range *refs {
		switch x := r.(type) {
		case *ssa.DebugRef:
		case *ssa.BinOp:
			if x.Op != token.EQL && x.Op != token.NEQ {
				return false
			}
		case *ssa.Call:
			f := x.Call.StaticCallee()
			if f == nil || f.String() != "errors.Is" || len(x.Call.Args) != 2 || x.Call.Args[1] != ssa.Value(u) {
				return false
			}
		default:
			return false
		}
	}
	return true
}

// checkGuardUnconditional: the continuation behind the guard is entered from the length test, or from the test that
// the limit is switched off (`MaxInputLength != 0 && …`), and from nowhere else: a further conjunct
// (`r&flag == 0 && MaxInputLength != 0 && l > MaxInputLength`) is a way round the limit for the inputs it selects.
func (c *Ctx) checkGuardUnconditional(fn *ssa.Function, gi *guardInfo) {
	bo := gi.cmp
	if bo == nil || bo.Block() == nil || bo.Block().Parent() != fn {
		return
	}
	G := bo.Block()
	g := globalLoad(bo.X)
	if g == nil {
		g = globalLoad(bo.Y)
	}
	if g == nil {
		return
	}
	// the predecessors of the continuation, seen through blocks that only jump on (the join of a `switch { case … }`)
	var preds []*ssa.BasicBlock
	var expand func(b *ssa.BasicBlock, depth int)
	expand = func(b *ssa.BasicBlock, depth int) {
		for _, p := range b.Preds {
			if _, isJump := p.Instrs[len(p.Instrs)-1].(*ssa.Jump); isJump && len(p.Instrs) == 1 && depth < 4 && p != G {
				expand(p, depth+1)
				continue
			}
			preds = append(preds, p)
		}
	}
	expand(gi.okBlk, 0)
	for _, p := range preds {
		if p == G || gi.okBlk.Dominates(p) {
			continue
		}
		isZeroTest := func(q *ssa.BasicBlock, towards *ssa.BasicBlock) bool {
			iff, ok := q.Instrs[len(q.Instrs)-1].(*ssa.If)
			if !ok {
				return false
			}
			cond, ok := iff.Cond.(*ssa.BinOp)
			if !ok || globalLoad(cond.X) != g {
				return false
			}
			if k, isK := constInt(cond.Y); !isK || k != 0 {
				return false
			}
			switch cond.Op {
			case token.NEQ, token.GTR:
				return q.Succs[1] == towards
			case token.EQL, token.LEQ:
				return q.Succs[0] == towards
			}
			return false
		}
		// the conjunction materialised as a boolean (`switch { case Max != 0 && l > Max: }`): the block branches on
		// phi(false from the limit-is-zero test, the length test)
		if iff, ok := p.Instrs[len(p.Instrs)-1].(*ssa.If); ok {
			if ph, isPhi := iff.Cond.(*ssa.Phi); isPhi && ph.Block() == p {
				fine, hasCmp := true, false
				for i, ed := range ph.Edges {
					switch {
					case ed == ssa.Value(bo):
						hasCmp = true
					case i < len(p.Preds) && isZeroTest(p.Preds[i], p):
						if k, isK := ed.(*ssa.Const); !isK || k.Value == nil || k.Value.Kind() != constant.Bool || constant.BoolVal(k.Value) {
							fine = false
						}
					default:
						fine = false
					}
				}
				if fine && hasCmp {
					continue
				}
			}
		}
		// the block ends in the test `MaxInputLength != 0` (whatever else it computes: `if l := len(input); …`)
		if iff, ok := p.Instrs[len(p.Instrs)-1].(*ssa.If); ok {
			if cond, ok := iff.Cond.(*ssa.BinOp); ok && globalLoad(cond.X) == g {
				if k, isK := constInt(cond.Y); isK && k == 0 {
					var nz *ssa.BasicBlock
					switch cond.Op {
					case token.NEQ, token.GTR:
						nz = p.Succs[0]
					case token.EQL, token.LEQ:
						nz = p.Succs[1]
					}
					if nz != nil && (nz == G || (len(p.Preds) == 1 && p.Preds[0] == G)) {
						continue
					}
				}
			}
		}
		pos := fn.Pos()
		if len(p.Instrs) > 0 {
			pos = p.Instrs[len(p.Instrs)-1].Pos()
			if iff, ok := p.Instrs[len(p.Instrs)-1].(*ssa.If); ok && iff.Cond.Pos().IsValid() {
				pos = iff.Cond.Pos()
			}
		}
		c.add("violated", "C18.L", fn, pos, "the input-length test is skipped when a further condition holds (a conjunct beside `MaxInputLength != 0`): input longer than the limit gets through under that condition")
	}
}

// fromGuardedCall: the error value comes (wrapped or as it is) from a call of a function of the module that holds
// the length guard for one of its parameters — the rejection of another input of the same entry point
// (`Compare(a, b)`: a's parse error is returned before b is looked at).
func (c *Ctx) fromGuardedCall(v ssa.Value, depth int) bool {
	if depth > 5 {
		return false
	}
	switch x := v.(type) {
	case *ssa.Extract:
		return c.fromGuardedCall(x.Tuple, depth+1)
	case *ssa.Call:
		if callee := c.StaticCallee(&x.Call); callee != nil && inRepo(callee) && len(callee.Blocks) > 0 {
			for ai := range callee.Params {
				if ai < len(x.Call.Args) && (c.findGuard(callee, callee.Params[ai]) != nil || c.delegatesGuard(callee, ai, 0)) {
					return true
				}
			}
			return false
		}
		for _, a := range x.Call.Args {
			if c.fromGuardedCall(a, depth+1) {
				return true
			}
		}
	case *ssa.MakeInterface:
		return c.fromGuardedCall(x.X, depth+1)
	case *ssa.ChangeInterface:
		return c.fromGuardedCall(x.X, depth+1)
	case *ssa.Slice:
		return c.fromGuardedCall(x.X, depth+1)
	case *ssa.Alloc:
		// the variadic argument array of fmt.Errorf: what is stored into it
		if x.Referrers() != nil {
			for _, r := range *x.Referrers() {
				if ia, ok := r.(*ssa.IndexAddr); ok && ia.Referrers() != nil {
					for _, rr := range *ia.Referrers() {
						if st, ok := rr.(*ssa.Store); ok && c.fromGuardedCall(st.Val, depth+1) {
							return true
						}
					}
				}
			}
		}
	case *ssa.Phi:
		for _, e := range x.Edges {
			if c.fromGuardedCall(e, depth+1) {
				return true
			}
		}
	}
	return false
}
