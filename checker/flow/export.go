package flow

import (
	"go/token"
	"regexp/syntax"

	"golang.org/x/tools/go/ssa"
)

// Exported helpers for rule code living in package props.

func ConstInt(v ssa.Value) (int64, bool)        { return constInt(v) }
func ConstString(v ssa.Value) (string, bool)    { return constString(v) }
func GlobalLoad(v ssa.Value) *ssa.Global        { return globalLoad(v) }
func Strip(v ssa.Value) ssa.Value               { return strip(v) }
func Varargs(v ssa.Value) []ssa.Value           { return varargs(v) }
func IsNilConst(v ssa.Value) bool               { return isNilConst(v) }
func Origin(fn *ssa.Function) *ssa.Function     { return origin(fn) }
func InRepo(fn *ssa.Function) bool              { return inRepo(fn) }
func ParseFormat(f string) []FmtItem            { return parseFormat(f) }
func IsErrorReturnBlock(b *ssa.BasicBlock) bool { return isErrorReturnBlock(b) }
func LeadsOnlyToErrors(b *ssa.BasicBlock) bool  { return leadsOnlyToErrors(b) }

type FmtItem = fmtItem

// Add records a finding from rule code outside this package.
func (c *Ctx) Add(kind, rule string, fn *ssa.Function, pos token.Pos, construct, msg, witness string) {
	c.addc(kind, rule, fn, pos, construct, msg, witness)
}

// Calls returns every call instruction of fn whose resolved callee satisfies pred.
func (c *Ctx) Calls(fn *ssa.Function, pred func(callee *ssa.Function) bool) []*ssa.Call {
	var out []*ssa.Call
	for _, b := range fn.Blocks {
		for _, in := range b.Instrs {
			if call, ok := in.(*ssa.Call); ok {
				if f := c.StaticCallee(&call.Call); f != nil && pred(f) {
					out = append(out, call)
				}
			}
		}
	}
	return out
}

// Returns lists the return instructions of fn.
func Returns(fn *ssa.Function) []*ssa.Return {
	var out []*ssa.Return
	for _, b := range fn.Blocks {
		if r, ok := b.Instrs[len(b.Instrs)-1].(*ssa.Return); ok {
			out = append(out, r)
		}
	}
	return out
}

func RootParam(v ssa.Value) *ssa.Parameter  { return rootParam(v) }
func HasSliceOnPath(v ssa.Value) bool       { return hasSliceOnPath(v) }
func IsLenOf(v ssa.Value) (ssa.Value, bool) { return isLenOf(v) }
func StripConv(v ssa.Value) ssa.Value       { return stripConv(v) }

// WrittenOnlyByInit: no function of the module other than a package initialiser stores to g or lets its address escape.
func (c *Ctx) WrittenOnlyByInit(g *ssa.Global) bool { return c.writtenOnlyByInit(g) }

// MinLen: length of the shortest word of the regular expression.
func MinLen(re *syntax.Regexp) int { return minLen(re) }

// ReachFrom: the blocks reachable from b (b itself only if it lies on a cycle).
func ReachFrom(b *ssa.BasicBlock) map[*ssa.BasicBlock]bool { return reachFrom(b) }
