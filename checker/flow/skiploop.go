package flow

import (
	"fmt"
	"go/constant"
	"go/token"

	"golang.org/x/tools/go/ssa"
)

// Transfer function of a token-skipping loop with a nesting counter (size.decodeAndSkipNested), by abstract
// interpretation of one iteration per token class. The loop reads one token per iteration from a decoder; what it
// does to the counter depends only on the token's class: not a delimiter, or one of the four delimiters. For each
// class the body is walked once from the loop head with the counter at its incoming value d: branches on the token
// are decided by the class, the decoder's error is taken as nil, and a comparison of the counter with zero is the
// exit test — its zero side must leave the function with a nil error, its other side carries on. The result is the
// value the counter has when the head is reached again (d + delta) and whether that value was the one tested.

type SkipStep struct {
	Delta    int  // counter at the next head = counter at this head + Delta
	Tested   bool // the carried value went through the zero test (in this iteration, or at the head of the next one)
	Returned bool // the iteration leaves the function without the zero test
}

// SkipLoopStep: class < 0 stands for a token that is not a delimiter, otherwise the delimiter's rune.
func SkipLoopStep(fn *ssa.Function, depth *ssa.Phi, class int) (SkipStep, error) {
	head := depth.Block()
	resolved := map[*ssa.Phi]ssa.Value{}
	var deltaOf func(v ssa.Value, n int) (int, bool)
	deltaOf = func(v ssa.Value, n int) (int, bool) {
		if n > 20 {
			return 0, false
		}
		switch x := v.(type) {
		case *ssa.Phi:
			if x == depth {
				return 0, true
			}
			if r, ok := resolved[x]; ok {
				return deltaOf(r, n+1)
			}
		case *ssa.BinOp:
			if k, ok := constInt(x.Y); ok && (x.Op == token.ADD || x.Op == token.SUB) {
				if d, ok := deltaOf(x.X, n+1); ok {
					if x.Op == token.SUB {
						k = -k
					}
					return d + int(k), true
				}
			}
		case *ssa.Convert:
			return deltaOf(x.X, n+1)
		case *ssa.ChangeType:
			return deltaOf(x.X, n+1)
		}
		return 0, false
	}
	isTokenCall := func(v ssa.Value) bool {
		c, ok := v.(*ssa.Call)
		return ok && c.Call.IsInvoke() && c.Call.Method.Name() == "Token"
	}
	// the delimiter value and its ok flag
	delimAssert := func(v ssa.Value) (*ssa.TypeAssert, int, bool) {
		v = stripConv(v)
		ex, ok := v.(*ssa.Extract)
		if !ok {
			if ta, ok := v.(*ssa.TypeAssert); ok && !ta.CommaOk && ta.AssertedType.String() == "encoding/json.Delim" {
				return ta, 0, true
			}
			return nil, 0, false
		}
		ta, ok := ex.Tuple.(*ssa.TypeAssert)
		if !ok || !ta.CommaOk || ta.AssertedType.String() != "encoding/json.Delim" {
			return nil, 0, false
		}
		return ta, ex.Index, true
	}
	leavesNil := func(b *ssa.BasicBlock) bool {
		for i := 0; i < 6; i++ {
			switch t := b.Instrs[len(b.Instrs)-1].(type) {
			case *ssa.Return:
				vals := ReturnValues(t)
				return len(vals) == 1 && isNilConst(vals[0])
			case *ssa.Jump:
				if b.Succs[0] == head {
					return false
				}
				b = b.Succs[0]
			default:
				return false
			}
		}
		return false
	}
	var st SkipStep
	headTest, tokenRead := false, false
	testedDelta, tested := 0, false
	prev, b := (*ssa.BasicBlock)(nil), head
	for steps := 0; steps < 100; steps++ {
		var next *ssa.BasicBlock
		for _, in := range b.Instrs {
			switch x := in.(type) {
			case *ssa.Phi:
				if x == depth || prev == nil {
					continue
				}
				for i, p := range b.Preds {
					if p == prev {
						resolved[x] = x.Edges[i]
					}
				}
			case *ssa.Call:
				if isTokenCall(x) {
					if tokenRead {
						return st, fmt.Errorf("more than one token is read per iteration")
					}
					tokenRead = true
				}
			case *ssa.Return:
				st.Returned = true
				return st, nil
			case *ssa.Jump:
				next = b.Succs[0]
			case *ssa.If:
				cond := x.Cond
				var evalErr error
				var eval func(v ssa.Value, n int) int // 0: true, 1: false, -1: undecided
				eval = func(v ssa.Value, n int) int {
					if n > 8 {
						return -1
					}
					switch c := v.(type) {
					case *ssa.Const:
						if c.Value != nil && c.Value.Kind() == constant.Bool {
							if constant.BoolVal(c.Value) {
								return 0
							}
							return 1
						}
					case *ssa.Phi:
						// a short-circuit || / && kept in a variable: the edge taken on this path
						if r, ok := resolved[c]; ok {
							return eval(r, n+1)
						}
					case *ssa.UnOp:
						if c.Op == token.NOT {
							if r := eval(c.X, n+1); r >= 0 {
								return 1 - r
							}
						}
					case *ssa.BinOp:
						// the decoder's error
						if ex, ok := c.X.(*ssa.Extract); ok && ex.Index == 1 && isTokenCall(ex.Tuple) && isNilConst(c.Y) {
							if c.Op == token.NEQ {
								return 1
							} else if c.Op == token.EQL {
								return 0
							}
							return -1
						}
						// the delimiter against a constant
						if _, idx, ok := delimAssert(c.X); ok && idx == 0 {
							if k, isK := constInt(c.Y); isK && (c.Op == token.EQL || c.Op == token.NEQ) {
								if class < 0 {
									evalErr = fmt.Errorf("the delimiter value is inspected although the token is not a delimiter")
									return -1
								}
								if (int(k) == class) == (c.Op == token.EQL) {
									return 0
								}
								return 1
							}
						}
						// the counter against zero
						if d, ok := deltaOf(c.X, 0); ok {
							k, isK := constInt(c.Y)
							zeroSide := -1
							switch {
							case isK && k == 0 && (c.Op == token.EQL || c.Op == token.LEQ), isK && k == 1 && c.Op == token.LSS:
								zeroSide = 0
							case isK && k == 0 && (c.Op == token.NEQ || c.Op == token.GTR), isK && k == 1 && c.Op == token.GEQ:
								zeroSide = 1
							}
							if zeroSide < 0 {
								evalErr = fmt.Errorf("the counter is compared with something other than zero")
								return -1
							}
							if v != cond {
								evalErr = fmt.Errorf("the counter test is not a branch condition of its own")
								return -1
							}
							if !leavesNil(b.Succs[zeroSide]) {
								evalErr = fmt.Errorf("the zero side of the counter test does not return nil")
								return -1
							}
							if !tokenRead && d == 0 {
								headTest = true
							} else {
								testedDelta, tested = d, true
							}
							return 1 - zeroSide
						}
					case *ssa.Extract:
						if _, idx, ok := delimAssert(c); ok && idx == 1 {
							if class >= 0 {
								return 0
							}
							return 1
						}
					}
					return -1
				}
				taken := eval(cond, 0)
				if evalErr != nil {
					return st, evalErr
				}
				if taken < 0 {
					return st, fmt.Errorf("branch on %s is not decided by the token class", cond)
				}
				next = b.Succs[taken]
			case *ssa.Panic:
				return st, fmt.Errorf("panic in the loop body")
			}
		}
		if next == nil {
			return st, fmt.Errorf("fell off a block")
		}
		if next == head {
			var carried ssa.Value
			for i, p := range head.Preds {
				if p == b {
					carried = depth.Edges[i]
				}
			}
			resolvedPrev := carried
			d, ok := deltaOf(resolvedPrev, 0)
			if !ok {
				return st, fmt.Errorf("the value carried to the next iteration is not the counter plus or minus a constant")
			}
			if !tokenRead {
				return st, fmt.Errorf("no token is read in the iteration")
			}
			st.Delta = d
			st.Tested = headTest || tested && testedDelta == d
			return st, nil
		}
		prev, b = b, next
	}
	return st, fmt.Errorf("step limit")
}
