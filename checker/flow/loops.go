package flow

import (
	"fmt"
	"go/token"
	"go/types"
	"sort"
	"strings"

	"golang.org/x/tools/go/ssa"
)

// ---------- C18.T3: loop progress ----------

type loop struct {
	head        *ssa.BasicBlock
	body        map[*ssa.BasicBlock]bool
	backs       []*ssa.BasicBlock      // sources of back edges
	constGlobal func(*ssa.Global) bool // set by the rule: g is written only by package initialisers
}

func naturalLoops(fn *ssa.Function) []*loop {
	byHead := map[*ssa.BasicBlock]*loop{}
	for _, b := range fn.Blocks {
		for _, s := range b.Succs {
			if s.Dominates(b) { // back edge b -> s
				l := byHead[s]
				if l == nil {
					l = &loop{head: s, body: map[*ssa.BasicBlock]bool{s: true}}
					byHead[s] = l
				}
				l.backs = append(l.backs, b)
				stack := []*ssa.BasicBlock{b}
				for len(stack) > 0 {
					x := stack[len(stack)-1]
					stack = stack[:len(stack)-1]
					if l.body[x] {
						continue
					}
					l.body[x] = true
					stack = append(stack, x.Preds...)
				}
			}
		}
	}
	var out []*loop
	for _, l := range byHead {
		out = append(out, l)
	}
	sort.Slice(out, func(i, j int) bool { return out[i].head.Index < out[j].head.Index })
	return out
}

// irreducible reports whether fn has a cycle that is not a natural loop (never produced by go/ssa for
// structured code; goto could): detected as a cycle remaining after removing back edges.
func hasIrreducibleCycle(fn *ssa.Function) bool {
	color := map[*ssa.BasicBlock]int{}
	var rec func(b *ssa.BasicBlock) bool
	rec = func(b *ssa.BasicBlock) bool {
		color[b] = 1
		for _, s := range b.Succs {
			if s.Dominates(b) {
				continue
			}
			if color[s] == 1 {
				return true
			}
			if color[s] == 0 && rec(s) {
				return true
			}
		}
		color[b] = 2
		return false
	}
	return len(fn.Blocks) > 0 && rec(fn.Blocks[0])
}

func (l *loop) invariant(v ssa.Value) bool {
	switch x := v.(type) {
	case *ssa.Const, *ssa.Parameter, *ssa.Global, *ssa.FreeVar:
		return true
	case ssa.Instruction:
		if !l.body[x.Block()] {
			return true
		}
		// a package-level variable that is only ever assigned by its initialiser, re-loaded inside the loop
		if u, ok := v.(*ssa.UnOp); ok && u.Op == token.MUL && l.constGlobal != nil {
			if g, ok := u.X.(*ssa.Global); ok && l.constGlobal(g) {
				return true
			}
		}
		// len(X)/cap(X) of an invariant value re-evaluated inside the loop
		if call, ok := v.(*ssa.Call); ok {
			if bi, ok := call.Call.Value.(*ssa.Builtin); ok && (bi.Name() == "len" || bi.Name() == "cap") {
				return l.invariant(call.Call.Args[0])
			}
		}
		if c, ok := v.(*ssa.Convert); ok {
			return l.invariant(c.X)
		}
		if c, ok := v.(*ssa.ChangeType); ok {
			return l.invariant(c.X)
		}
	}
	return false
}

func (c *Ctx) RuleLoopProgress(fns map[*ssa.Function]bool) {
	for _, fn := range SortedFuncs(fns) {
		if hasIrreducibleCycle(fn) {
			c.addc("undecided", "C18.T3", fn, fn.Pos(), "irreducible", "control-flow cycle that is not a natural loop (idioms: for/range loops)", "")
			continue
		}
		for li, l := range naturalLoops(fn) {
			l.constGlobal = c.writtenOnlyByInit
			construct := fmt.Sprintf("loop#%d", li)
			why := c.loopTerminates(l)
			pos := lastPos(l.head)
			if why != "" {
				c.addc("discharged", "C18.T3", fn, pos, construct, why, "")
			} else {
				c.addc("undecided", "C18.T3", fn, pos, construct, "loop without a recognised progress argument (idioms: range over a finite value; counter with constant positive step compared against a loop-invariant bound; a decoder Token() consumed on every iteration)", "")
			}
		}
	}
}

func (c *Ctx) loopTerminates(l *loop) string {
	// (a) range iterator: a Next on a Range created outside the loop, whose ok flag guards an exit
	for b := range l.body {
		for _, in := range b.Instrs {
			nx, ok := in.(*ssa.Next)
			if !ok {
				continue
			}
			if rg, ok := nx.Iter.(*ssa.Range); ok && !l.body[rg.Block()] && l.allBacksDominatedBy(b) {
				return "range over a finite string/map: the iterator advances on every iteration"
			}
		}
	}
	// (b) counter with constant positive step, compared with a loop-invariant bound on an exit edge
	for _, in := range l.head.Instrs {
		ph, ok := in.(*ssa.Phi)
		if !ok {
			break
		}
		var inc *ssa.BinOp
		var init ssa.Value
		step := int64(0)
		for i, e := range ph.Edges {
			if !l.body[l.head.Preds[i]] {
				init = e
				continue
			}
			bo, ok := e.(*ssa.BinOp)
			if !ok {
				inc = nil
				break
			}
			k, isK := constInt(bo.Y)
			if bo.X != ssa.Value(ph) || !isK || k == 0 || (bo.Op != token.ADD && bo.Op != token.SUB) {
				inc = nil
				break
			}
			if bo.Op == token.SUB {
				k = -k
			}
			if step != 0 && step != k {
				inc = nil
				break
			}
			step = k
			inc = bo
		}
		if inc == nil {
			continue
		}
		for b := range l.body {
			iff, ok := b.Instrs[len(b.Instrs)-1].(*ssa.If)
			if !ok {
				continue
			}
			if l.body[b.Succs[0]] && l.body[b.Succs[1]] {
				continue // not an exit
			}
			cmp, ok := iff.Cond.(*ssa.BinOp)
			if !ok {
				continue
			}
			isCtr := func(v ssa.Value) bool { return v == ssa.Value(ph) || v == ssa.Value(inc) }
			var bound ssa.Value
			switch {
			case isCtr(cmp.X) && l.invariant(cmp.Y):
				bound = cmp.Y
			case isCtr(cmp.Y) && l.invariant(cmp.X):
				bound = cmp.X
			default:
				continue
			}
			if !l.allBacksDominatedBy(b) {
				continue
			}
			switch cmp.Op {
			case token.LSS, token.LEQ, token.GTR, token.GEQ:
				if step > 0 {
					return "counter with constant positive step compared against a loop-invariant bound on every iteration"
				}
				return "counter with constant negative step compared against a loop-invariant bound on every iteration"
			case token.NEQ, token.EQL:
				// `i != n` with unit step: terminates when the start is on the right side of the bound
				c0, okc := constInt(init)
				if !okc || (step != 1 && step != -1) {
					continue
				}
				blo, bhi, okb := boundRange(bound)
				if okb && (step == 1 && c0 <= blo || step == -1 && c0 >= bhi) {
					return "unit-step counter tested for (in)equality with a loop-invariant bound it starts on the near side of, on every iteration"
				}
			}
		}
	}
	// (c) a decoder token is consumed on every iteration
	for b := range l.body {
		for _, in := range b.Instrs {
			call, ok := in.(*ssa.Call)
			if !ok {
				continue
			}
			isTok := false
			if call.Call.IsInvoke() && call.Call.Method.Name() == "Token" {
				isTok = true
			} else if f := call.Call.StaticCallee(); f != nil && f.String() == "(*encoding/json.Decoder).Token" {
				isTok = true
			}
			if isTok && l.allBacksDominatedBy(b) && tokenErrorLeaves(call, l, 1) {
				return "a decoder Token() is consumed on every iteration and its error leaves the loop: iterations are bounded by the input length"
			}
			// the read made by a helper of the module that hands the decoder's error on (`key, err := decodeKey(d)`)
			if h := call.Call.StaticCallee(); !isTok && h != nil && inRepo(h) && l.allBacksDominatedBy(b) {
				if n := h.Signature.Results().Len(); n >= 1 && isErrorType(h.Signature.Results().At(n-1).Type()) && consumesToken(origin(h)) && tokenErrorLeaves(call, l, n-1) {
					return "a helper that consumes a decoder Token() and hands its error on is called on every iteration, and that error leaves the loop"
				}
			}
		}
	}
	return ""
}

// allBacksDominatedBy: block b lies on every path around the loop.
func (l *loop) allBacksDominatedBy(b *ssa.BasicBlock) bool {
	for _, s := range l.backs {
		if !(b == s || b.Dominates(s)) {
			return false
		}
	}
	return true
}

// tokenErrorLeaves: the error result of the Token call is tested against nil and the non-nil edge leaves the loop
// (otherwise a decoder stuck at EOF would spin).
func tokenErrorLeaves(call *ssa.Call, l *loop, errIndex int) bool {
	for _, r := range *call.Referrers() {
		ex, ok := r.(*ssa.Extract)
		if !ok || ex.Index != errIndex {
			continue
		}
		for _, r2 := range *ex.Referrers() {
			bo, ok := r2.(*ssa.BinOp)
			if !ok || !isNilConst(bo.Y) {
				continue
			}
			for _, r3 := range *bo.Referrers() {
				iff, ok := r3.(*ssa.If)
				if !ok {
					continue
				}
				errEdge := iff.Block().Succs[0]
				if bo.Op == token.EQL {
					errEdge = iff.Block().Succs[1]
				}
				if !l.body[errEdge] {
					return true
				}
			}
		}
	}
	return false
}

// consumesToken: every call of h reads one decoder token before it returns (the read dominates every return), and a
// failed read makes h return a non-nil error.
func consumesToken(h *ssa.Function) bool {
	for _, b := range h.Blocks {
		for _, in := range b.Instrs {
			call, ok := in.(*ssa.Call)
			if !ok {
				continue
			}
			isTok := call.Call.IsInvoke() && call.Call.Method.Name() == "Token"
			if f := call.Call.StaticCallee(); f != nil && f.String() == "(*encoding/json.Decoder).Token" {
				isTok = true
			}
			if !isTok {
				continue
			}
			dominatesReturns := true
			for _, rb := range h.Blocks {
				if _, isRet := rb.Instrs[len(rb.Instrs)-1].(*ssa.Return); isRet && !(b == rb || b.Dominates(rb)) {
					dominatesReturns = false
				}
			}
			if !dominatesReturns {
				continue
			}
			for _, r := range *call.Referrers() {
				ex, ok := r.(*ssa.Extract)
				if !ok || ex.Index != 1 {
					continue
				}
				for _, r2 := range *ex.Referrers() {
					bo, ok := r2.(*ssa.BinOp)
					if !ok || !isNilConst(bo.Y) {
						continue
					}
					for _, r3 := range *bo.Referrers() {
						if iff, ok := r3.(*ssa.If); ok {
							errEdge := iff.Block().Succs[0]
							if bo.Op == token.EQL {
								errEdge = iff.Block().Succs[1]
							}
							if leadsOnlyToErrors(errEdge) {
								return true
							}
						}
					}
				}
			}
		}
	}
	return false
}

// boundRange: a static range for a loop bound: a constant, or a length (>= 0).
func boundRange(v ssa.Value) (lo, hi int64, ok bool) {
	if k, isK := constInt(v); isK {
		return k, k, true
	}
	if c, isCall := v.(*ssa.Call); isCall {
		if bi, isB := c.Call.Value.(*ssa.Builtin); isB && (bi.Name() == "len" || bi.Name() == "cap") {
			return 0, inf, true
		}
	}
	return 0, 0, false
}

// writtenOnlyByInit: no function of the module other than a package initialiser stores to g (or takes its address
// for anything but loads).
func (c *Ctx) writtenOnlyByInit(g *ssa.Global) bool {
	if c.constGlobals == nil {
		c.constGlobals = map[*ssa.Global]bool{}
		written := map[*ssa.Global]bool{}
		for fn := range c.AllRepoFuncs() {
			if fn.Name() == "init" { // the synthesised package initialiser; a declared func init() is init#k and counts
				continue
			}
			for _, b := range fn.Blocks {
				for _, in := range b.Instrs {
					for _, op := range in.Operands(nil) {
						gg, ok := (*op).(*ssa.Global)
						if !ok {
							continue
						}
						if u, isLoad := in.(*ssa.UnOp); isLoad && u.Op == token.MUL {
							// a loaded slice / map / pointer shares the table's storage: it must only be read
							if !readOnlyUses(u, 0) {
								written[gg] = true
							}
							continue
						}
						if v, isVal := in.(ssa.Value); isVal && addrOnlyLoaded(v, 0) {
							continue // &g[i] / &g.f used only to load from
						}
						written[gg] = true // stored to, or its address escapes
					}
				}
			}
		}
		c.writtenGlobals = written
	}
	return !c.writtenGlobals[g]
}

// readOnlyUses: v (a reference-typed value loaded from a table: slice, map, pointer) is only read — indexed or
// looked up for loading, ranged over, measured, re-sliced under the same condition, compared, or handed to a
// function of the standard library known not to write through it. Values without reference semantics (strings,
// numbers, arrays by value, structs without such fields are not followed) are always fine.
func readOnlyUses(v ssa.Value, depth int) bool {
	switch v.Type().Underlying().(type) {
	case *types.Slice, *types.Map, *types.Pointer:
	default:
		return true
	}
	if depth > 4 || v.Referrers() == nil {
		return false
	}
	for _, r := range *v.Referrers() {
		switch x := r.(type) {
		case *ssa.IndexAddr:
			if !addrOnlyLoaded(x, 0) {
				return false
			}
		case *ssa.Index, *ssa.Lookup, *ssa.Range, *ssa.DebugRef, *ssa.BinOp, *ssa.If:
		case *ssa.UnOp:
			if x.Op != token.MUL {
				return false
			}
			if !readOnlyUses(x, depth+1) {
				return false
			}
		case *ssa.Slice:
			if !readOnlyUses(x, depth+1) {
				return false
			}
		case *ssa.Phi:
			if !readOnlyUses(x, depth+1) {
				return false
			}
		case *ssa.Call:
			if bi, ok := x.Call.Value.(*ssa.Builtin); ok {
				switch bi.Name() {
				case "len", "cap":
					continue
				case "append": // append(dst, table...) reads the table; append(table, …) may write its spare capacity
					if x.Call.Args[0] == v {
						return false
					}
					continue
				case "copy":
					if x.Call.Args[0] == v {
						return false
					}
					continue
				}
				return false
			}
			f := x.Call.StaticCallee()
			if f == nil {
				return false
			}
			if inRepo(f) {
				// a function of the module: its parameter must be read-only in turn
				ok := false
				for i, a := range x.Call.Args {
					if a == v && i < len(origin(f).Params) {
						ok = readOnlyUses(origin(f).Params[i], depth+1)
					}
				}
				if !ok {
					return false
				}
				continue
			}
			if !readOnly[origin(f).String()] && !aliasReturning[origin(f).String()] && !strings.HasPrefix(origin(f).String(), "strings.") && !strings.HasPrefix(origin(f).String(), "(*regexp.Regexp).") {
				return false
			}
		default:
			return false
		}
	}
	return true
}

// addrOnlyLoaded: v is an element/field address whose every use is a load (or a further element/field address
// with the same property).
func addrOnlyLoaded(v ssa.Value, depth int) bool {
	switch v.(type) {
	case *ssa.IndexAddr, *ssa.FieldAddr:
	default:
		return false
	}
	if depth > 4 || v.Referrers() == nil {
		return false
	}
	for _, r := range *v.Referrers() {
		switch x := r.(type) {
		case *ssa.UnOp:
			if x.Op != token.MUL {
				return false
			}
		case *ssa.DebugRef:
		case *ssa.IndexAddr, *ssa.FieldAddr:
			if !addrOnlyLoaded(x.(ssa.Value), depth+1) {
				return false
			}
		default:
			return false
		}
	}
	return true
}
