package flow

import (
	"fmt"
	"go/token"
	"go/types"
	"sort"
	"strings"

	"golang.org/x/tools/go/ssa"
)

// ---------- calendar-validity guard (C09.valid, C11.range) ----------

// normalises reports whether fn passes parameter pi (transitively, in-repo) to time.Date's month or day parameter.
func (c *Ctx) normalises(fn *ssa.Function, pi int, depth int) bool {
	if depth > 3 || !inRepo(fn) || pi >= len(fn.Params) {
		return false
	}
	der := c.forward(fn, fn.Params[pi])
	for _, b := range fn.Blocks {
		for _, in := range b.Instrs {
			call, ok := in.(*ssa.Call)
			if !ok {
				continue
			}
			callee := c.StaticCallee(&call.Call)
			if callee == nil {
				continue
			}
			for ai, a := range call.Call.Args {
				if !der[a] {
					continue
				}
				if callee.String() == "time.Date" && (ai == 1 || ai == 2) {
					return true
				}
				if inRepo(callee) && c.normalises(callee, ai, depth+1) {
					return true
				}
			}
		}
	}
	return false
}

// forward computes the set of values data-dependent on seed (no control dependence).
func (c *Ctx) forward(fn *ssa.Function, seeds ...ssa.Value) map[ssa.Value]bool {
	der := map[ssa.Value]bool{}
	for _, s := range seeds {
		der[s] = true
	}
	changed := true
	for changed {
		changed = false
		for _, b := range fn.Blocks {
			for _, in := range b.Instrs {
				v, ok := in.(ssa.Value)
				if !ok || der[v] {
					// stores into locals: propagate to the alloc
					if st, ok := in.(*ssa.Store); ok && der[st.Val] && !der[st.Addr] {
						if _, isAlloc := st.Addr.(*ssa.Alloc); isAlloc {
							der[st.Addr] = true
							changed = true
						}
					}
					continue
				}
				for _, op := range in.Operands(nil) {
					if *op != nil && der[*op] {
						der[v] = true
						changed = true
						break
					}
				}
			}
		}
	}
	return der
}

// guarded returns the continuation blocks of Ifs that compare src (or a conversion of it) for (in)equality with a
// value derived from the construction, whose mismatch edge is an error return.
func (c *Ctx) guarded(fn *ssa.Function, src ssa.Value, fromCons map[ssa.Value]bool) []*ssa.BasicBlock {
	fromSrc := map[ssa.Value]bool{src: true}
	// go/ssa performs no CSE: every re-load of param[k] is a distinct value; treat loads of the same
	// parameter element (constant index) as the same source
	if key, ok := elemKey(src); ok {
		for _, b := range fn.Blocks {
			for _, in := range b.Instrs {
				if v, ok := in.(ssa.Value); ok {
					if k2, ok := elemKey(v); ok && k2 == key {
						fromSrc[v] = true
					}
				}
			}
		}
	}
	// conversions only
	for changed := true; changed; {
		changed = false
		for _, b := range fn.Blocks {
			for _, in := range b.Instrs {
				switch x := in.(type) {
				case *ssa.Convert:
					if fromSrc[x.X] && !fromSrc[x] {
						fromSrc[x] = true
						changed = true
					}
				case *ssa.ChangeType:
					if fromSrc[x.X] && !fromSrc[x] {
						fromSrc[x] = true
						changed = true
					}
				}
			}
		}
	}
	var out []*ssa.BasicBlock
	for _, b := range fn.Blocks {
		iff, ok := b.Instrs[len(b.Instrs)-1].(*ssa.If)
		if !ok {
			continue
		}
		bo, ok := iff.Cond.(*ssa.BinOp)
		if !ok || (bo.Op != token.NEQ && bo.Op != token.EQL) {
			continue
		}
		pair := (fromSrc[bo.X] && fromCons[bo.Y] && !fromSrc[bo.Y]) || (fromSrc[bo.Y] && fromCons[bo.X] && !fromSrc[bo.X])
		if !pair {
			continue
		}
		mismatch, match := b.Succs[0], b.Succs[1]
		if bo.Op == token.EQL {
			mismatch, match = match, mismatch
		}
		if leadsOnlyToErrors(mismatch) {
			out = append(out, match)
		}
	}
	return out
}

func leadsOnlyToErrors(b *ssa.BasicBlock) bool {
	seen := map[*ssa.BasicBlock]bool{}
	var rec func(x *ssa.BasicBlock) bool
	rec = func(x *ssa.BasicBlock) bool {
		if seen[x] {
			return true
		}
		seen[x] = true
		if ret, ok := x.Instrs[len(x.Instrs)-1].(*ssa.Return); ok {
			return !isNilConst(ret.Results[len(ret.Results)-1])
		}
		if len(x.Succs) == 0 {
			return true
		}
		for _, s := range x.Succs {
			if !rec(s) {
				return false
			}
		}
		return true
	}
	return rec(b)
}

func (c *Ctx) domAny(blocks []*ssa.BasicBlock, b *ssa.BasicBlock) bool {
	for _, g := range blocks {
		if g == b || g.Dominates(b) {
			return true
		}
	}
	return false
}

// RuleDateFieldStores: C11.range — every store into Date.month / Date.day.
func (c *Ctx) RuleDateFieldStores(pkg *ssa.Package) {
	dateT := pkg.Type("Date").Type()
	for _, fn := range SortedFuncs(c.AllRepoFuncs()) {
		if fn.Pkg != pkg {
			continue
		}
		for _, b := range fn.Blocks {
			for _, in := range b.Instrs {
				st, ok := in.(*ssa.Store)
				if !ok {
					continue
				}
				// whole-struct stores of a Date: the value must itself come from a construction that is subject
				// to this rule (in-repo call, load, phi, zero value)
				if types.Identical(st.Val.Type(), dateT) {
					if _, isParam := st.Val.(*ssa.Parameter); isParam {
						continue // spill of a value receiver / parameter
					}
					switch why := c.dateValueOrigin(st.Val, 0); why {
					case "":
						c.addc("undecided", "C11.range", fn, st.Pos(), "store Date", "whole Date stored from a value of unrecognised origin (idioms: result of an in-repo constructor, copy of another Date, zero value)", "")
					default:
						c.addc("discharged", "C11.range", fn, st.Pos(), "store Date", "whole Date stored from "+why, "")
					}
					continue
				}
				fa, ok := st.Addr.(*ssa.FieldAddr)
				if !ok {
					continue
				}
				pt, ok := fa.X.Type().Underlying().(*types.Pointer)
				if !ok || !types.Identical(pt.Elem(), dateT) {
					continue
				}
				fname := dateT.Underlying().(*types.Struct).Field(fa.Field).Name()
				if fname != "month" && fname != "day" {
					continue
				}
				kind, src := classifyStored(st.Val)
				switch kind {
				case "time":
					c.add("discharged", "C11.range", fn, st.Pos(), fname+" := component of time.Time.Date() − 1")
				case "zero":
					c.add("discharged", "C11.range", fn, st.Pos(), fname+" := 0 (zero date)")
				case "wire":
					// needs a guard comparing src with something constructed
					var cons []ssa.Value
					for _, b2 := range fn.Blocks {
						for _, in2 := range b2.Instrs {
							if call, ok := in2.(*ssa.Call); ok {
								if callee := c.StaticCallee(&call.Call); callee != nil {
									// the construction that is compared back is the one of the decoded date: year, month and day
									// all come from the data (New(2000, month, day) says nothing about 29 February of the decoded year)
									allDecoded := len(call.Call.Args) >= 3
									for ai := 0; allDecoded && ai < 3; ai++ {
										if _, isK := call.Call.Args[ai].(*ssa.Const); isK {
											allDecoded = false
										}
									}
									if !allDecoded {
										continue
									}
									for ai := range call.Call.Args {
										if callee.String() == "time.Date" || c.normalises(callee, ai, 0) {
											cons = append(cons, call)
										}
									}
								}
							}
						}
					}
					okb := c.guarded(fn, src, c.forward(fn, cons...))
					if len(cons) > 0 && c.domAny(okb, b) {
						c.add("discharged", "C11.range", fn, st.Pos(), fname+" := decoded byte, guarded by round-trip comparison")
					} else {
						c.add("violated", "C11.range", fn, st.Pos(), fmt.Sprintf("%s := %s − 1 stored without any range or calendar-validity guard: a non-existent date can be minted", fname, src))
					}
				default:
					// a constructor helper storing its own parameter (minus one): every call inside the module must pass a
					// component of time.Time.Date()
					if pi, ok := paramBehind(fn, st.Val); ok {
						sites, all := 0, true
						for caller := range c.AllRepoFuncs() {
							for _, cb := range caller.Blocks {
								for _, cin := range cb.Instrs {
									call, isCall := cin.(*ssa.Call)
									if !isCall {
										continue
									}
									if callee := c.StaticCallee(&call.Call); callee == nil || origin(callee) != origin(fn) || pi >= len(call.Call.Args) {
										continue
									}
									sites++
									if k, _ := classifyStored(call.Call.Args[pi]); k != "time" {
										all = false
									}
								}
							}
						}
						exported := fn.Object() != nil && fn.Object().Exported()
						if sites > 0 && all && !exported {
							c.add("discharged", "C11.range", fn, st.Pos(), fmt.Sprintf("%s := parameter − 1 of an unexported constructor; all %d call site(s) pass a component of time.Time.Date()", fname, sites))
							continue
						}
					}
					c.add("undecided", "C11.range", fn, st.Pos(), "unclassified value stored into "+fname)
				}
			}
		}
	}
}

func classifyStored(v ssa.Value) (string, ssa.Value) {
	if k, ok := constInt(v); ok && k == 0 {
		return "zero", nil
	}
	for i := 0; i < 8; i++ {
		switch x := v.(type) {
		case *ssa.Convert:
			v = x.X
		case *ssa.ChangeType:
			v = x.X
		case *ssa.BinOp:
			if _, isK := x.Y.(*ssa.Const); isK && (x.Op == token.SUB || x.Op == token.ADD) {
				v = x.X
			} else {
				return "?", nil
			}
		case *ssa.Extract:
			if call, ok := x.Tuple.(*ssa.Call); ok {
				if f := call.Call.StaticCallee(); f != nil && f.String() == "(time.Time).Date" {
					return "time", nil
				}
			}
			return "?", nil
		case *ssa.Call:
			// t.Month() / t.Day() / t.Year(): the same components as t.Date()
			if f := x.Call.StaticCallee(); f != nil {
				switch f.String() {
				case "(time.Time).Month", "(time.Time).Day", "(time.Time).Year":
					return "time", nil
				}
			}
			return "?", nil
		case *ssa.UnOp:
			if ia, ok := x.X.(*ssa.IndexAddr); ok && x.Op == token.MUL {
				if _, isParam := ia.X.(*ssa.Parameter); isParam {
					return "wire", x
				}
			}
			return "?", nil
		default:
			return "?", nil
		}
	}
	return "?", nil
}

// ---------- C10.case: case-closure of byte comparisons in the value function ----------

// constSet computes the possible constant values of v inside fn, resolving parameters through all in-repo call sites
// and struct fields of never-written literal tables.
func (c *Ctx) constSet(v ssa.Value, depth int) (map[int64]bool, bool) {
	out := map[int64]bool{}
	if depth > 4 {
		return nil, false
	}
	switch x := v.(type) {
	case *ssa.Const:
		k, ok := constInt(x)
		if !ok {
			return nil, false
		}
		out[k] = true
		return out, true
	case *ssa.BinOp:
		a, ok1 := c.constSet(x.X, depth+1)
		b, ok2 := c.constSet(x.Y, depth+1)
		if !ok1 || !ok2 {
			return nil, false
		}
		for i := range a {
			for j := range b {
				switch x.Op {
				case token.ADD:
					out[(i+j)&0xff] = true
				case token.SUB:
					out[(i-j)&0xff] = true
				default:
					return nil, false
				}
			}
		}
		return out, true
	case *ssa.Convert:
		return c.constSet(x.X, depth+1)
	case *ssa.Parameter:
		fn := x.Parent()
		idx := -1
		for i, p := range fn.Params {
			if p == x {
				idx = i
			}
		}
		n := 0
		for caller := range c.AllRepoFuncs() {
			for _, b := range caller.Blocks {
				for _, in := range b.Instrs {
					call, ok := in.(*ssa.Call)
					if !ok || c.StaticCallee(&call.Call) != origin(fn) {
						continue
					}
					n++
					s, ok := c.constSet(call.Call.Args[idx], depth+1)
					if !ok {
						return nil, false
					}
					for k := range s {
						out[k] = true
					}
				}
			}
		}
		return out, n > 0
	case *ssa.Field:
		// field of an element of a ranged literal table: collect all composite literal values of that field in package init
		return c.tableFieldValues(x)
	case *ssa.UnOp:
		// load of a field of a local copy of a table element (range variable spilled by go/ssa)
		if fa, ok := x.X.(*ssa.FieldAddr); ok && x.Op == token.MUL {
			if _, isAlloc := fa.X.(*ssa.Alloc); isAlloc {
				st := fa.X.Type().Underlying().(*types.Pointer).Elem().Underlying().(*types.Struct)
				return c.tableFieldValuesOf(st, fa.Field)
			}
		}
	}
	return nil, false
}

func (c *Ctx) tableFieldValuesOf(st *types.Struct, field int) (map[int64]bool, bool) {
	out := map[int64]bool{}
	for fn := range c.AllRepoFuncs() {
		if fn.Name() != "init" {
			continue
		}
		for _, b := range fn.Blocks {
			for _, in := range b.Instrs {
				s, ok := in.(*ssa.Store)
				if !ok {
					continue
				}
				fa, ok := s.Addr.(*ssa.FieldAddr)
				if !ok || fa.Field != field {
					continue
				}
				pt, ok := fa.X.Type().Underlying().(*types.Pointer)
				if !ok || !types.Identical(pt.Elem().Underlying(), st) {
					continue
				}
				k, ok := constInt(s.Val)
				if !ok {
					return nil, false
				}
				out[k] = true
			}
		}
	}
	return out, len(out) > 0
}

func fieldOfRangedTable(v ssa.Value) (*ssa.Field, bool) { f, ok := v.(*ssa.Field); return f, ok }

// tableFieldValues: all constants stored into field #k of elements of struct type T in package init.
func (c *Ctx) tableFieldValues(f *ssa.Field) (map[int64]bool, bool) {
	st := f.X.Type().Underlying().(*types.Struct)
	out := map[int64]bool{}
	for fn := range c.AllRepoFuncs() {
		if fn.Name() != "init" {
			continue
		}
		for _, b := range fn.Blocks {
			for _, in := range b.Instrs {
				s, ok := in.(*ssa.Store)
				if !ok {
					continue
				}
				fa, ok := s.Addr.(*ssa.FieldAddr)
				if !ok || fa.Field != f.Field {
					continue
				}
				pt, ok := fa.X.Type().Underlying().(*types.Pointer)
				if !ok || !types.Identical(pt.Elem().Underlying(), st) {
					continue
				}
				k, ok := constInt(s.Val)
				if !ok {
					return nil, false
				}
				out[k] = true
			}
		}
	}
	return out, len(out) > 0
}

func (c *Ctx) RuleCaseClosure(fn *ssa.Function, inputIdx int, alphabet string) {
	input := fn.Params[inputIdx]
	compared := map[int64]bool{}
	sites := 0
	for _, b := range fn.Blocks {
		for _, in := range b.Instrs {
			bo, ok := in.(*ssa.BinOp)
			if !ok || (bo.Op != token.EQL && bo.Op != token.NEQ) {
				continue
			}
			var other ssa.Value
			if isInputByte(bo.X, input) {
				other = bo.Y
			} else if isInputByte(bo.Y, input) {
				other = bo.X
			} else {
				continue
			}
			sites++
			s, ok := c.constSet(other, 0)
			if !ok {
				c.add("undecided", "C10.case", fn, bo.Pos(), "comparison operand not a resolvable constant set")
				return
			}
			for k := range s {
				compared[k] = true
			}
		}
	}
	var set []string
	var keys []int64
	for k := range compared {
		keys = append(keys, k)
	}
	sort.Slice(keys, func(i, j int) bool { return keys[i] < keys[j] })
	for _, k := range keys {
		set = append(set, fmt.Sprintf("%q", rune(k)))
	}
	var problems []string
	for _, k := range keys {
		r := rune(k)
		if !strings.ContainsRune(alphabet, r) {
			problems = append(problems, fmt.Sprintf("%q is outside the regexp alphabet (dead test)", r))
			continue
		}
		sw := r ^ 0x20
		if !compared[int64(sw)] {
			problems = append(problems, fmt.Sprintf("%q compared but %q is not, although the pattern is case-insensitive", r, sw))
		}
	}
	if len(problems) == 0 {
		c.add("discharged", "C10.case", fn, fn.Pos(), fmt.Sprintf("%d comparisons, constant set {%s} closed under case", sites, strings.Join(set, ",")))
	} else {
		c.add("violated", "C10.case", fn, fn.Pos(), fmt.Sprintf("compared set {%s}: %s", strings.Join(set, ","), strings.Join(problems, "; ")))
	}
}

func isInputByte(v ssa.Value, input *ssa.Parameter) bool {
	u, ok := v.(*ssa.UnOp)
	if !ok || u.Op != token.MUL {
		return false
	}
	ia, ok := u.X.(*ssa.IndexAddr)
	return ok && ia.X == input
}

// ---------- C06.num ----------

// RuleNumericCompare: in fn, a branch establishing that both operands match a digits-only regexp must lead to
// a length comparison or numeric conversion before the result is produced.
func (c *Ctx) RuleNumericCompare(fn *ssa.Function, digitsOnly func(g *ssa.Global) bool) {
	// find blocks where two MatchString calls on digits-only regexps on different arguments are both true
	type m struct {
		call *ssa.Call
		arg  ssa.Value
	}
	var matches []m
	for _, b := range fn.Blocks {
		for _, in := range b.Instrs {
			call, ok := in.(*ssa.Call)
			if !ok {
				continue
			}
			f := call.Call.StaticCallee()
			if f == nil || !strings.HasPrefix(f.String(), "(*regexp.Regexp).Match") {
				continue
			}
			if g := globalLoad(call.Call.Args[0]); g != nil && digitsOnly(g) {
				matches = append(matches, m{call, call.Call.Args[1]})
			}
		}
	}
	if len(matches) < 2 {
		c.add("discharged", "C06.num", fn, fn.Pos(), "no recognised both-numeric region (nothing to contradict)")
		return
	}
	// region: blocks dominated by the true edges of all match tests
	var region []*ssa.BasicBlock
	for _, b := range fn.Blocks {
		in := true
		for _, mm := range matches {
			okm := false
			for _, r := range *mm.call.Referrers() {
				if iff, ok := r.(*ssa.If); ok {
					t := iff.Block().Succs[0]
					if t == b || t.Dominates(b) {
						okm = true
					}
				}
			}
			if !okm {
				in = false
			}
		}
		if in {
			region = append(region, b)
		}
	}
	if len(region) == 0 {
		// the two match results are combined before they are branched on (a boolean local): this path rule has no region
		// to look at; the same clause is decided on the extracted decision table of the function (C06.numorder)
		c.add("discharged", "C06.num", fn, fn.Pos(), "both-numeric tests are combined into one condition: the numeric ordering is decided by the decision table (C06.numorder)")
		return
	}
	// does every path from the region to a return contain a len-compare or numeric conversion?
	hasNumeric := func(b *ssa.BasicBlock) bool {
		for _, in := range b.Instrs {
			if call, ok := in.(*ssa.Call); ok {
				if f := call.Call.StaticCallee(); f != nil {
					switch f.String() {
					case "strconv.ParseUint", "strconv.Atoi", "strconv.ParseInt", "(*math/big.Int).SetString":
						return true
					}
				}
			}
			if bo, ok := in.(*ssa.BinOp); ok {
				_, l1 := isLenOf(bo.X)
				_, l2 := isLenOf(bo.Y)
				if l1 && l2 {
					return true
				}
			}
		}
		return false
	}
	start := region[0]
	seen := map[*ssa.BasicBlock]bool{}
	var bad *ssa.BasicBlock
	var rec func(b *ssa.BasicBlock)
	rec = func(b *ssa.BasicBlock) {
		if seen[b] || bad != nil {
			return
		}
		seen[b] = true
		if hasNumeric(b) {
			return
		}
		if _, ok := b.Instrs[len(b.Instrs)-1].(*ssa.Return); ok {
			bad = b
			return
		}
		for _, s := range b.Succs {
			rec(s)
		}
	}
	rec(start)
	if bad != nil {
		c.addc("violated", "C06.num", fn, lastPos(bad), "numeric branch", "both operands are established to be all-digit, yet a path reaches the result without a length comparison or numeric conversion: numeric identifiers are compared lexically", "1.0.0-2 vs 1.0.0-11")
	} else {
		c.addc("discharged", "C06.num", fn, start.Instrs[0].Pos(), "numeric branch", "numeric branch compares by length or value", "")
	}
}

func elemKey(v ssa.Value) (string, bool) {
	u, ok := v.(*ssa.UnOp)
	if !ok || u.Op != token.MUL {
		return "", false
	}
	ia, ok := u.X.(*ssa.IndexAddr)
	if !ok {
		return "", false
	}
	p, ok := ia.X.(*ssa.Parameter)
	if !ok {
		return "", false
	}
	k, ok := constInt(ia.Index)
	if !ok {
		return "", false
	}
	return fmt.Sprintf("%s[%d]", p.Name(), k), true
}

// dateValueOrigin classifies where a whole Date value comes from; "" if unrecognised.
func (c *Ctx) dateValueOrigin(v ssa.Value, depth int) string {
	if depth > 6 {
		return ""
	}
	switch x := v.(type) {
	case *ssa.Const:
		return "the zero value"
	case *ssa.Parameter:
		return "a Date parameter (valid by the type's invariant)"
	case *ssa.UnOp:
		if x.Op == token.MUL {
			// … unless the pointer was converted from a pointer to a structurally identical type: what it points to was
			// filled in as that other type, by stores this rule does not look at
			ptr := x.X
			for i := 0; i < 4; i++ {
				switch y := ptr.(type) {
				case *ssa.ChangeType:
					if !types.Identical(y.X.Type(), y.Type()) {
						return ""
					}
					ptr = y.X
					continue
				case *ssa.Convert:
					return "" // through unsafe.Pointer
				}
				break
			}
			return "a copy of another Date (valid by the type's invariant)"
		}
	case *ssa.Call:
		if f := c.StaticCallee(&x.Call); f != nil && inRepo(f) {
			return "the result of " + FnName(f) + " (whose own stores are checked by this rule)"
		}
	case *ssa.Extract:
		if call, ok := x.Tuple.(*ssa.Call); ok {
			if f := c.StaticCallee(&call.Call); f != nil && inRepo(f) {
				return "a result of " + FnName(f) + " (whose own stores are checked by this rule)"
			}
		}
	case *ssa.Phi:
		why := ""
		for _, e := range x.Edges {
			w := c.dateValueOrigin(e, depth+1)
			if w == "" {
				return ""
			}
			why = w
		}
		return why
	case *ssa.Field:
		return "a field/copy of an existing Date"
	case *ssa.ChangeType:
		// a conversion from a structurally identical type builds a Date out of components nobody validated
		// (Date(struct{year int32; month, day uint8}{…})): only a conversion of something that already is a Date counts
		if types.Identical(x.X.Type(), x.Type()) {
			return c.dateValueOrigin(x.X, depth+1)
		}
		return ""
	case *ssa.MakeInterface, *ssa.TypeAssert:
		return ""
	}
	return ""
}

// paramBehind: v is a parameter of fn behind conversions and ± constant; returns its index.
func paramBehind(fn *ssa.Function, v ssa.Value) (int, bool) {
	for i := 0; i < 8; i++ {
		switch x := v.(type) {
		case *ssa.Convert:
			v = x.X
		case *ssa.ChangeType:
			v = x.X
		case *ssa.BinOp:
			if _, isK := x.Y.(*ssa.Const); isK && (x.Op == token.SUB || x.Op == token.ADD) {
				v = x.X
			} else {
				return 0, false
			}
		case *ssa.Parameter:
			for pi, p := range fn.Params {
				if p == x {
					return pi, true
				}
			}
			return 0, false
		default:
			return 0, false
		}
	}
	return 0, false
}

// LeadsOnlyToReturns: every path from b ends in a return satisfying ok (or never returns).
func LeadsOnlyToReturns(b *ssa.BasicBlock, ok func(*ssa.Return) bool) bool {
	seen := map[*ssa.BasicBlock]bool{}
	var rec func(x *ssa.BasicBlock) bool
	rec = func(x *ssa.BasicBlock) bool {
		if seen[x] {
			return true
		}
		seen[x] = true
		if ret, isRet := x.Instrs[len(x.Instrs)-1].(*ssa.Return); isRet {
			return ok(ret)
		}
		for _, s := range x.Succs {
			if !rec(s) {
				return false
			}
		}
		return true
	}
	return rec(b)
}
