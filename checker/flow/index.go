package flow

import (
	"fmt"
	"go/token"
	"go/types"
	"math"
	"regexp/syntax"
	"strings"

	"golang.org/x/tools/go/ssa"
)

// ---------- C18.T2 index obligations (prototype of a small bound prover) ----------

const inf = math.MaxInt32

type lin struct {
	base   ssa.Value // nil, or a value X such that the quantity is len(X)+[lo,hi]
	lo, hi int64
	nonneg bool // quantity known >= 0
	ok     bool
}

func (l lin) String() string {
	if !l.ok {
		return "?"
	}
	if l.base != nil {
		return fmt.Sprintf("len(%s)+[%d,%d]", l.base.Name(), l.lo, l.hi)
	}
	return fmt.Sprintf("[%d,%d]", l.lo, l.hi)
}

type fact struct {
	cond  *ssa.BinOp
	truth bool
	call  *ssa.Call // boolean call result used as condition (e.g. hasURNPrefix) – unused
}

type prover struct {
	c        *Ctx
	fn       *ssa.Function
	scenario map[*ssa.Phi]int // chosen edge for selector phis
	extra    []fact           // facts from the chosen phi edges
	pre      *precond
	depth    int // nesting of guard-helper look-ups
	// sliceDepth bounds the look-through of re-slices in lenBounds
	sliceDepth int
	// joinDepth bounds the join over predecessors in lenBounds
	joinDepth int
}

// precond is one observation of how a function is called from inside the analysed set: per parameter index the
// length range of a sequence argument, the value range of an integer argument, and pairwise length order.
type precond struct {
	lenLo, lenHi map[int]int64   // per param index
	valLo, valHi map[int]int64   // integer parameters
	le           map[[2]int]bool // len(param i) <= len(param j)
	within       map[[2]int]bool // 0 <= integer param i <= len(param j): a position in (or at the end of) that sequence
}

// lenRoot strips length-preserving wrappers.
func lenRoot(v ssa.Value) ssa.Value {
	for i := 0; i < 10; i++ {
		switch x := v.(type) {
		case *ssa.ChangeType:
			v = x.X
		case *ssa.MultiConvert:
			v = x.X // string <-> []byte on ParserInput: same byte length
		case *ssa.Convert:
			// string <-> []byte preserve length; []rune does not
			from, to := x.X.Type().Underlying(), x.Type().Underlying()
			if isByteSeq(from) && isByteSeq(to) {
				v = x.X
			} else {
				return v
			}
		case *ssa.UnOp:
			// a variable kept in a cell (captured by a closure): the load is the one value that can reach it
			if rv := reachingStore(x); rv != nil {
				v = rv
			} else {
				return v
			}
		default:
			return v
		}
	}
	return v
}

func isByteSeq(t types.Type) bool {
	switch u := t.(type) {
	case *types.Basic:
		return u.Info()&types.IsString != 0
	case *types.Slice:
		b, ok := u.Elem().Underlying().(*types.Basic)
		return ok && b.Kind() == types.Uint8
	case *types.TypeParam:
		return true
	}
	return false
}

func (p *prover) facts(b *ssa.BasicBlock) []fact {
	var out []fact
	for d := b; d.Idom() != nil; d = d.Idom() {
		id := d.Idom()
		iff, ok := id.Instrs[len(id.Instrs)-1].(*ssa.If)
		if !ok {
			continue
		}
		bo, ok := iff.Cond.(*ssa.BinOp)
		if !ok {
			continue
		}
		t, f := id.Succs[0], id.Succs[1]
		viaT := (t == d || t.Dominates(d)) && len(t.Preds) == 1
		viaF := (f == d || f.Dominates(d)) && len(f.Preds) == 1
		if viaT && !viaF {
			out = append(out, fact{cond: bo, truth: true})
		} else if viaF && !viaT {
			out = append(out, fact{cond: bo, truth: false})
		}
	}
	return append(out, p.extra...)
}

// edgeFacts: facts holding on the edge pred->succ.
func (p *prover) edgeFacts(pred, succ *ssa.BasicBlock) []fact {
	out := p.facts(pred)
	if iff, ok := pred.Instrs[len(pred.Instrs)-1].(*ssa.If); ok {
		if bo, ok := iff.Cond.(*ssa.BinOp); ok && pred.Succs[0] != pred.Succs[1] {
			out = append(out, fact{cond: bo, truth: pred.Succs[0] == succ})
		}
	}
	return out
}

func negate(op token.Token) token.Token {
	switch op {
	case token.EQL:
		return token.NEQ
	case token.NEQ:
		return token.EQL
	case token.LSS:
		return token.GEQ
	case token.GEQ:
		return token.LSS
	case token.GTR:
		return token.LEQ
	case token.LEQ:
		return token.GTR
	}
	return op
}

func flip(op token.Token) token.Token {
	switch op {
	case token.LSS:
		return token.GTR
	case token.GTR:
		return token.LSS
	case token.LEQ:
		return token.GEQ
	case token.GEQ:
		return token.LEQ
	}
	return op
}

// eval computes a linear/interval form for integer value v at block b.
func (p *prover) eval(v ssa.Value, b *ssa.BasicBlock, depth int) lin {
	r := p.eval0(v, b, depth)
	if r.ok && r.base == nil {
		if _, isConst := v.(*ssa.Const); !isConst {
			r = p.refine(v, r, b)
		}
	}
	return r
}

func (p *prover) eval0(v ssa.Value, b *ssa.BasicBlock, depth int) lin {
	if depth > 12 {
		return lin{}
	}
	switch x := v.(type) {
	case *ssa.Const:
		if k, ok := constInt(x); ok {
			return lin{lo: k, hi: k, ok: true, nonneg: k >= 0}
		}
	case *ssa.Parameter:
		if p.pre != nil {
			if i := paramIndex(p.fn, x); i >= 0 {
				lo, ok1 := p.pre.valLo[i]
				hi, ok2 := p.pre.valHi[i]
				if ok1 && ok2 {
					return lin{lo: lo, hi: hi, ok: true, nonneg: lo >= 0}
				}
				// a position in one of the sequence parameters (shown at every call site): 0 ≤ x ≤ len(that parameter)
				for j, q := range p.fn.Params {
					if p.pre.within[[2]int{i, j}] {
						return lin{base: lenRoot(q), lo: -inf, hi: 0, ok: true, nonneg: true}
					}
				}
			}
		}
	case *ssa.Convert:
		if _, ok := x.X.Type().Underlying().(*types.Basic); ok {
			return p.eval(x.X, b, depth+1)
		}
	case *ssa.ChangeType:
		return p.eval(x.X, b, depth+1)
	case *ssa.Call:
		// a helper of the module that moves a position back (its one result is a rewind counter started at one of its
		// parameters): the result lies between 0 and that argument
		if callee := p.c.StaticCallee(&x.Call); callee != nil && inRepo(callee) && depth < 6 {
			g := origin(callee)
			var res ssa.Value
			n := 0
			for _, gb := range g.Blocks {
				if r, ok := gb.Instrs[len(gb.Instrs)-1].(*ssa.Return); ok {
					n++
					if len(r.Results) == 1 {
						res = r.Results[0]
					}
				}
			}
			if ph, ok := res.(*ssa.Phi); ok && n == 1 {
				q := &prover{c: p.c, fn: g}
				if ei, ok := q.rewindCounter(ph); ok {
					if prm, ok := ph.Edges[ei].(*ssa.Parameter); ok {
						if k := paramIndex(g, prm); k >= 0 && k < len(x.Call.Args) {
							a := p.eval(x.Call.Args[k], b, depth+1)
							if a.ok && (a.nonneg || a.lo >= 0) {
								r := lin{base: a.base, lo: -inf, hi: a.hi, ok: true, nonneg: true}
								if a.base == nil {
									r.lo = 0
								}
								return r
							}
						}
					}
				}
			}
		}
		if bi, ok := x.Call.Value.(*ssa.Builtin); ok && bi.Name() == "len" {
			root := lenRoot(x.Call.Args[0])
			// what a Trim function of strings / bytes hands back is no longer than what it was given; a prefix x[:h]
			// has length h
			if tc, ok := root.(*ssa.Call); ok && len(tc.Call.Args) >= 1 && depth < 8 {
				if f := tc.Call.StaticCallee(); f != nil && f.Pkg != nil && (f.Pkg.Pkg.Path() == "strings" || f.Pkg.Pkg.Path() == "bytes") && strings.HasPrefix(f.Name(), "Trim") {
					inner := lenRoot(tc.Call.Args[0])
					r := lin{base: inner, ok: true, nonneg: true}
					if sl, ok := inner.(*ssa.Slice); ok && sl.Low == nil && sl.High != nil {
						r = p.eval(sl.High, b, depth+1)
					}
					if r.ok {
						r.nonneg = true
						if r.base != nil {
							r.lo = -inf
						} else {
							r.lo = 0
						}
						return r
					}
				}
			}
			return lin{base: root, ok: true, nonneg: true}
		}
	case *ssa.BinOp:
		a := p.eval(x.X, b, depth+1)
		c := p.eval(x.Y, b, depth+1)
		if !a.ok || !c.ok {
			// x & mask
			if x.Op == token.AND {
				if k, ok := constInt(x.Y); ok && k >= 0 {
					return lin{lo: 0, hi: k, ok: true, nonneg: true}
				}
			}
			return lin{}
		}
		switch x.Op {
		case token.ADD:
			if a.base != nil && c.base != nil {
				return lin{}
			}
			base := a.base
			if base == nil {
				base = c.base
			}
			r := lin{base: base, lo: sat(a.lo + c.lo), hi: sat(a.hi + c.hi), ok: true, nonneg: a.nonneg && c.nonneg}
			if r.base == nil && r.lo >= 0 {
				r.nonneg = true
			}
			return r
		case token.SUB:
			if c.base != nil {
				return lin{}
			}
			r := lin{base: a.base, lo: sat(a.lo - c.hi), hi: sat(a.hi - c.lo), ok: true}
			r.nonneg = r.base == nil && r.lo >= 0
			return r
		case token.MUL:
			if a.base == nil && c.base == nil && a.lo >= 0 && c.lo >= 0 {
				return lin{lo: sat(a.lo * c.lo), hi: sat(a.hi * c.hi), ok: true, nonneg: true}
			}
		case token.SHR:
			if a.base == nil && c.base == nil && c.lo == c.hi && a.lo >= 0 {
				return lin{lo: a.lo >> uint(c.lo), hi: a.hi >> uint(c.lo), ok: true, nonneg: true}
			}
		case token.AND:
			if c.base == nil && c.lo == c.hi && c.lo >= 0 {
				return lin{lo: 0, hi: c.lo, ok: true, nonneg: true}
			}
		}
	case *ssa.Phi:
		if e, ok := p.scenario[x]; ok {
			return p.eval(x.Edges[e], x.Block().Preds[e], depth+1)
		}
		// loop counter: phi(c0, self+step [, self+step …]) — one constant entry value, every other edge the same increment
		// (a `continue` adds a further back edge carrying the same value)
		if len(x.Edges) >= 2 {
			var c0 int64
			nConst := 0
			var inc *ssa.BinOp
			okShape := true
			for _, ed := range x.Edges {
				if k, okc := constInt(ed); okc {
					c0 = k
					nConst++
					continue
				}
				bo, okb := ed.(*ssa.BinOp)
				if !okb || bo.Op != token.ADD || bo.X != ssa.Value(x) || (inc != nil && inc != bo) {
					okShape = false
					break
				}
				inc = bo
			}
			if okShape && nConst == 1 && inc != nil {
				if st, ok := constInt(inc.Y); ok && st > 0 {
					r := lin{lo: c0, hi: inf, ok: true, nonneg: c0 >= 0}
					return p.refine(x, r, b)
				}
			}
		}
		// rewind counter: phi(init, self-1) where the decrement is guarded by self > 0 (self >= 1, self != 0 for a
		// non-negative entry value): the variable stays within [0, init]
		if i, ok := p.rewindCounter(x); ok && depth < 6 {
			init := p.eval(x.Edges[i], x.Block().Preds[i], depth+1)
			if init.ok && (init.nonneg || init.lo >= 0) {
				r := lin{base: init.base, lo: -inf, hi: init.hi, ok: true, nonneg: true}
				if init.base == nil {
					r.lo = 0
				}
				return r
			}
		}
		// join
		r := lin{lo: inf, hi: -inf, ok: true, nonneg: true}
		for i, e := range x.Edges {
			ev := p.eval(e, x.Block().Preds[i], depth+1)
			if !ev.ok || ev.base != nil {
				return lin{}
			}
			if ev.lo < r.lo {
				r.lo = ev.lo
			}
			if ev.hi > r.hi {
				r.hi = ev.hi
			}
			r.nonneg = r.nonneg && ev.nonneg
		}
		return r
	case *ssa.Extract:
		if nx, ok := x.Tuple.(*ssa.Next); ok && x.Index == 1 {
			if rg, ok := nx.Iter.(*ssa.Range); ok {
				// byte offset into a string / index of... : in [0, len-1]
				return lin{base: lenRoot(rg.X), lo: -inf, hi: -1, ok: true, nonneg: true}
			}
		}
	case *ssa.UnOp:
		if x.Op == token.MUL {
			// element of a literal table
			if ia, ok := x.X.(*ssa.IndexAddr); ok {
				g := globalLoad(ia.X)
				if g == nil {
					g, _ = ia.X.(*ssa.Global)
				}
				if g != nil {
					if lo, hi, ok := p.c.tableIntRange(g); ok {
						return lin{lo: lo, hi: hi, ok: true, nonneg: lo >= 0}
					}
				}
			}
		}
	case *ssa.Index:
		// element of an array value loaded from a literal table
		if g := globalLoad(x.X); g != nil {
			if lo, hi, ok := p.c.tableIntRange(g); ok {
				return lin{lo: lo, hi: hi, ok: true, nonneg: lo >= 0}
			}
		}
	}
	// value with facts only
	r := lin{lo: -inf, hi: inf, ok: true}
	r2 := p.refine(v, r, b)
	if r2.lo > -inf || r2.hi < inf {
		return r2
	}
	return lin{}
}

func sat(x int64) int64 {
	if x > inf {
		return inf
	}
	if x < -inf {
		return -inf
	}
	return x
}

// refine narrows interval r of value v using dominating facts `v OP const` / `v OP len(...)`.
func (p *prover) refine(v ssa.Value, r lin, b *ssa.BasicBlock) lin {
	for _, f := range p.facts(b) {
		op := f.cond.Op
		var other ssa.Value
		switch {
		case f.cond.X == v:
			other = f.cond.Y
		case f.cond.Y == v:
			other = f.cond.X
			op = flip(op)
		default:
			continue
		}
		if !f.truth {
			op = negate(op)
		}
		k, ok := constInt(other)
		if !ok {
			// v OP len(Y): use the upper bound of len(Y)
			if l := p.evalNoFacts(other); l.ok && l.base != nil && l.lo == l.hi && (op == token.LSS || op == token.LEQ) {
				_, lh := p.lenBounds(l.base, b)
				if lh < inf {
					k, ok = lh+l.lo, true
				}
			}
			if !ok {
				continue
			}
		}
		switch op {
		case token.LSS:
			if k-1 < r.hi {
				r.hi = k - 1
			}
		case token.LEQ:
			if k < r.hi {
				r.hi = k
			}
		case token.GTR:
			if k+1 > r.lo {
				r.lo = k + 1
			}
		case token.GEQ:
			if k > r.lo {
				r.lo = k
			}
		case token.EQL:
			r.lo, r.hi = k, k
		}
	}
	if r.lo >= 0 {
		r.nonneg = true
	}
	return r
}

// lenBounds computes [lo,hi] for len(X) at block b.
func (p *prover) lenBounds(X ssa.Value, b *ssa.BasicBlock) (int64, int64) {
	root := lenRoot(X)
	lo, hi := int64(0), int64(inf)
	excluded := map[int64]bool{}
	// array types
	if pt, ok := X.Type().Underlying().(*types.Pointer); ok {
		if at, ok := pt.Elem().Underlying().(*types.Array); ok {
			return at.Len(), at.Len()
		}
	}
	if at, ok := X.Type().Underlying().(*types.Array); ok {
		return at.Len(), at.Len()
	}
	// constant conversions: []byte("...") of a constant string
	if cv, ok := X.(*ssa.Convert); ok {
		if s, ok := constString(cv.X); ok {
			return int64(len(s)), int64(len(s))
		}
	}
	if s, ok := constString(root); ok {
		return int64(len(s)), int64(len(s))
	}
	// literal tables
	if g := globalLoad(X); g != nil {
		if n, ok := p.c.tableLen(g); ok {
			return n, n
		}
	}
	// a re-slice Y[lo:hi] with bounded lo (and hi): len = (hi | len(Y)) - lo
	if sl, ok := root.(*ssa.Slice); ok && sl.Max == nil && p.sliceDepth < 3 {
		q := *p
		q.sliceDepth++
		var lo0, lo1 int64
		okLo := true
		if sl.Low != nil {
			e := q.eval(sl.Low, b, 0)
			if e.ok && e.base == nil && e.lo >= 0 && e.hi < inf {
				lo0, lo1 = e.lo, e.hi
			} else {
				okLo = false
			}
		}
		if okLo {
			var h0, h1 int64
			okHi := true
			if sl.High != nil {
				e := q.eval(sl.High, b, 0)
				if e.ok && e.base == nil && e.hi < inf {
					h0, h1 = e.lo, e.hi
				} else {
					okHi = false
				}
			} else {
				h0, h1 = q.lenBounds(sl.X, b)
			}
			if okHi {
				a := h0 - lo1
				if a < 0 {
					a = 0
				}
				if a > lo {
					lo = a
				}
				if h1 < inf && h1-lo0 < hi {
					hi = h1 - lo0
				}
			}
		}
	}
	// preconditions on parameters
	if prm, ok := root.(*ssa.Parameter); ok && p.pre != nil {
		for i, q := range p.fn.Params {
			if q == prm {
				if v, ok := p.pre.lenLo[i]; ok {
					lo = v
				}
				if v, ok := p.pre.lenHi[i]; ok {
					hi = v
				}
			}
		}
	}
	for _, f := range p.facts(b) {
		op := f.cond.Op
		a := p.evalNoFacts(f.cond.X)
		c := p.evalNoFacts(f.cond.Y)
		if !a.ok || !c.ok {
			continue
		}
		// normalise to: len(root)+off OP k
		if c.base == root && a.base == nil {
			a, c = c, a
			op = flip(op)
		}
		if a.base != root || c.base != nil || a.lo != a.hi || c.lo != c.hi {
			continue
		}
		if !f.truth {
			op = negate(op)
		}
		k := c.lo - a.lo
		switch op {
		case token.EQL:
			lo, hi = k, k
		case token.NEQ:
			excluded[k] = true
		case token.LSS:
			if k-1 < hi {
				hi = k - 1
			}
		case token.LEQ:
			if k < hi {
				hi = k
			}
		case token.GTR:
			if k+1 > lo {
				lo = k + 1
			}
		case token.GEQ:
			if k > lo {
				lo = k
			}
		}
	}
	for excluded[lo] && lo < hi {
		lo++
	}
	// guard helpers: on the `err == nil` edge of a call h(…, X, …) to a function of the module, X has the length
	// range it has at every nil-error return of h
	if glo, ghi, ok := p.guardHelperBounds(root, b); ok {
		if glo > lo {
			lo = glo
		}
		if ghi < hi {
			hi = ghi
		}
	}
	// a slice made with a bounded length
	if ms, ok := root.(*ssa.MakeSlice); ok && p.sliceDepth < 3 {
		q := *p
		q.sliceDepth++
		if e := q.eval(ms.Len, ms.Block(), 0); e.ok {
			l0, h0 := int64(0), int64(0)
			if e.base != nil {
				l0, h0 = q.lenBounds(e.base, ms.Block())
			}
			if l0+e.lo > lo {
				lo = l0 + e.lo
			}
			if h0 < inf && e.hi < inf && h0+e.hi < hi {
				hi = h0 + e.hi
			}
		}
	}
	// regexp knowledge
	if call, ok := root.(*ssa.Call); ok {
		// a sub-match result, possibly handed through helpers of the module, is nil or has one entry per group + 1;
		// `parts != nil` is the same test as `len(parts) != 0` where every non-nil form is the regexp's own result
		if n, strict, ok := p.c.submatchShape(call, 0); ok && n > 0 && (lo >= 1 || strict && p.nonNilFact(root, b)) {
			return n, n
		}
	}
	// subject of a successful match: len >= shortest word
	if m := p.matchedMinLen(root, b); m > lo {
		lo = m
	}
	// a merge point (after `switch len(x) - k { case 0: …; case 9: … }`): no branch condition dominates it, but the
	// length of a parameter does not change, so it lies within the union of what the incoming edges establish. Back
	// edges are skipped: what held on entry to the loop still holds.
	m := b // the nearest merge point that dominates b (b itself included)
	for m != nil && len(m.Preds) < 2 {
		m = m.Idom()
	}
	if _, isParam := root.(*ssa.Parameter); isParam && m != nil && p.joinDepth < 4 {
		b := m
		jlo, jhi, n := int64(inf), int64(0), 0
		for _, pr := range b.Preds {
			if b.Dominates(pr) {
				continue
			}
			q := *p
			q.joinDepth++
			q.extra = append([]fact{}, p.extra...)
			if iff, ok := pr.Instrs[len(pr.Instrs)-1].(*ssa.If); ok {
				if bo, ok := iff.Cond.(*ssa.BinOp); ok && pr.Succs[0] != pr.Succs[1] {
					q.extra = append(q.extra, fact{cond: bo, truth: pr.Succs[0] == b})
				}
			}
			l, h := q.lenBounds(X, pr)
			if l < jlo {
				jlo = l
			}
			if h > jhi {
				jhi = h
			}
			n++
		}
		if n > 0 {
			if jlo > lo {
				lo = jlo
			}
			if jhi < hi {
				hi = jhi
			}
		}
	}
	return lo, hi
}

func (p *prover) evalNoFacts(v ssa.Value) lin {
	q := &prover{c: p.c, fn: p.fn, scenario: p.scenario}
	return q.eval(v, p.fn.Blocks[0], 0)
}

// matchedMinLen: if b is dominated by the non-empty branch of FindSubmatch(root'), with lenRoot(root')==root, return min word length.
func (p *prover) matchedMinLen(root ssa.Value, b *ssa.BasicBlock) int64 {
	for _, blk := range p.fn.Blocks {
		for _, in := range blk.Instrs {
			call, ok := in.(*ssa.Call)
			if !ok {
				continue
			}
			f := call.Call.StaticCallee()
			if f == nil || !(isFindSubmatch(origin(f).String()) || isFindSubmatchIndex(origin(f).String())) || lenRoot(call.Call.Args[1]) != root {
				continue
			}
			// need fact len(call)==0 false at b
			q := *p
			lo, _ := (&q).lenBoundsNoRegexp(call, b)
			if lo >= 1 || p.nonNilFact(call, b) {
				if re := p.c.regexpOf(call.Call.Args[0]); re != nil {
					return int64(minLen(re))
				}
			}
		}
	}
	return 0
}

func (p *prover) lenBoundsNoRegexp(X ssa.Value, b *ssa.BasicBlock) (int64, int64) {
	lo, hi := int64(0), int64(inf)
	excluded := map[int64]bool{}
	for _, f := range p.facts(b) {
		op := f.cond.Op
		a := p.evalNoFacts(f.cond.X)
		c := p.evalNoFacts(f.cond.Y)
		if !a.ok || !c.ok || a.base != X || c.base != nil || c.lo != c.hi {
			continue
		}
		if !f.truth {
			op = negate(op)
		}
		k := c.lo - a.lo
		switch op {
		case token.EQL:
			lo, hi = k, k
		case token.NEQ:
			excluded[k] = true
		case token.GTR:
			if k+1 > lo {
				lo = k + 1
			}
		}
	}
	for excluded[lo] && lo < hi {
		lo++
	}
	return lo, hi
}

func minLen(re *syntax.Regexp) int {
	switch re.Op {
	case syntax.OpLiteral:
		return len(re.Rune)
	case syntax.OpCharClass, syntax.OpAnyChar, syntax.OpAnyCharNotNL:
		return 1
	case syntax.OpCapture:
		return minLen(re.Sub[0])
	case syntax.OpConcat:
		n := 0
		for _, s := range re.Sub {
			n += minLen(s)
		}
		return n
	case syntax.OpAlternate:
		m := -1
		for _, s := range re.Sub {
			if k := minLen(s); m < 0 || k < m {
				m = k
			}
		}
		return m
	case syntax.OpRepeat:
		return re.Min * minLen(re.Sub[0])
	case syntax.OpPlus:
		return minLen(re.Sub[0])
	}
	return 0
}

// regexpOf resolves a *regexp.Regexp value that is a load of a global initialised by MustCompile(const).
func (c *Ctx) regexpOf(v ssa.Value) *syntax.Regexp {
	g := globalLoad(v)
	if g == nil {
		return nil
	}
	return c.RegexpOfGlobal(g)
}

// PatternOfGlobal returns the pattern constant a *regexp.Regexp global is compiled from in package init.
func (c *Ctx) PatternOfGlobal(g *ssa.Global) (string, bool) {
	// the variable is assigned exactly once in the whole module (a second assignment — in a declared init(), in any
	// function — would make the analysed pattern not the one that is matched)
	stores := 0
	for fn := range c.AllRepoFuncs() {
		for _, b := range fn.Blocks {
			for _, in := range b.Instrs {
				if st, ok := in.(*ssa.Store); ok && st.Addr == ssa.Value(g) {
					stores++
				}
			}
		}
	}
	if stores != 1 {
		return "", false
	}
	for fn := range c.AllRepoFuncs() {
		if fn.Name() != "init" {
			continue
		}
		for _, b := range fn.Blocks {
			for _, in := range b.Instrs {
				st, ok := in.(*ssa.Store)
				if !ok || st.Addr != g {
					continue
				}
				call, ok := st.Val.(*ssa.Call)
				if !ok {
					continue
				}
				if f := call.Call.StaticCallee(); f == nil || !(f.String() == "regexp.MustCompile" || f.String() == "regexp.Compile") {
					continue
				}
				if s, ok := constString(call.Call.Args[0]); ok {
					return s, true
				}
			}
		}
	}
	return "", false
}

// RegexpSubsetOfDigits reports whether every word matched by the regexp global consists of ASCII digits only.
func (c *Ctx) RegexpSubsetOfDigits(g *ssa.Global) bool {
	re := c.RegexpOfGlobal(g)
	if re == nil {
		return false
	}
	// must be anchored at both ends, otherwise a match says nothing about the whole operand
	if p, err := syntax.Compile(re.Simplify()); err != nil || p.StartCond()&syntax.EmptyBeginText == 0 {
		return false
	}
	if !endsAnchored(re) {
		return false
	}
	var only func(r *syntax.Regexp) bool
	only = func(r *syntax.Regexp) bool {
		switch r.Op {
		case syntax.OpLiteral:
			for _, x := range r.Rune {
				if x < '0' || x > '9' {
					return false
				}
			}
			return r.Flags&syntax.FoldCase == 0 || true
		case syntax.OpCharClass:
			for i := 0; i+1 < len(r.Rune); i += 2 {
				if r.Rune[i] < '0' || r.Rune[i+1] > '9' {
					return false
				}
			}
			return true
		case syntax.OpAnyChar, syntax.OpAnyCharNotNL:
			return false
		}
		for _, s := range r.Sub {
			if !only(s) {
				return false
			}
		}
		return true
	}
	return only(re)
}

func endsAnchored(re *syntax.Regexp) bool {
	switch re.Op {
	case syntax.OpEndText:
		return true
	case syntax.OpConcat:
		return len(re.Sub) > 0 && endsAnchored(re.Sub[len(re.Sub)-1])
	case syntax.OpCapture:
		return endsAnchored(re.Sub[0])
	case syntax.OpAlternate:
		for _, s := range re.Sub {
			if !endsAnchored(s) {
				return false
			}
		}
		return true
	}
	return false
}

func (c *Ctx) RegexpOfGlobal(g *ssa.Global) *syntax.Regexp {
	for fn := range c.AllRepoFuncs() {
		if fn.Name() != "init" {
			continue
		}
		for _, b := range fn.Blocks {
			for _, in := range b.Instrs {
				st, ok := in.(*ssa.Store)
				if !ok || st.Addr != g {
					continue
				}
				call, ok := st.Val.(*ssa.Call)
				if !ok {
					continue
				}
				if s, ok := constString(call.Call.Args[0]); ok {
					re, err := syntax.Parse(s, syntax.Perl)
					if err == nil {
						return re
					}
				}
			}
		}
	}
	return nil
}

// tableLen: length of a package-level slice initialised from a literal.
func (c *Ctx) tableLen(g *ssa.Global) (int64, bool) {
	for fn := range c.AllRepoFuncs() {
		if fn.Name() != "init" {
			continue
		}
		for _, b := range fn.Blocks {
			for _, in := range b.Instrs {
				st, ok := in.(*ssa.Store)
				if !ok || st.Addr != g {
					continue
				}
				if sl, ok := st.Val.(*ssa.Slice); ok {
					if al, ok := sl.X.(*ssa.Alloc); ok {
						if at, ok := al.Type().Underlying().(*types.Pointer).Elem().Underlying().(*types.Array); ok {
							return at.Len(), true
						}
					}
				}
			}
		}
	}
	return 0, false
}

// tableIntRange: min/max of an []int literal table.
func (c *Ctx) tableIntRange(g *ssa.Global) (int64, int64, bool) {
	// array-typed table: elements are stored through &g[k] in package init
	if pt, ok := g.Type().Underlying().(*types.Pointer); ok {
		if _, isArr := pt.Elem().Underlying().(*types.Array); isArr {
			lo, hi, n := int64(inf), int64(-inf), 0
			for fn := range c.AllRepoFuncs() {
				for _, b := range fn.Blocks {
					for _, in := range b.Instrs {
						st, ok := in.(*ssa.Store)
						if !ok {
							continue
						}
						if st.Addr == ssa.Value(g) {
							// whole-array store of a composite literal: elements of the literal's alloc
							if ld, ok := st.Val.(*ssa.UnOp); ok {
								if al, ok := ld.X.(*ssa.Alloc); ok {
									for _, ref := range *al.Referrers() {
										if ia, ok := ref.(*ssa.IndexAddr); ok {
											for _, r2 := range *ia.Referrers() {
												if s2, ok := r2.(*ssa.Store); ok {
													k, ok := constInt(s2.Val)
													if !ok {
														return 0, 0, false
													}
													n++
													if k < lo {
														lo = k
													}
													if k > hi {
														hi = k
													}
												}
											}
										}
									}
								}
							}
							continue
						}
						ia, ok := st.Addr.(*ssa.IndexAddr)
						if !ok || ia.X != ssa.Value(g) {
							continue
						}
						if fn.Name() != "init" {
							return 0, 0, false
						}
						k, ok := constInt(st.Val)
						if !ok {
							return 0, 0, false
						}
						n++
						if k < lo {
							lo = k
						}
						if k > hi {
							hi = k
						}
					}
				}
			}
			if n > 0 {
				if lo > 0 {
					lo = 0 // elements not stored explicitly keep the zero value
				}
				return lo, hi, true
			}
			return 0, 0, false
		}
	}
	for fn := range c.AllRepoFuncs() {
		if fn.Name() != "init" {
			continue
		}
		for _, b := range fn.Blocks {
			for _, in := range b.Instrs {
				st, ok := in.(*ssa.Store)
				if !ok || st.Addr != g {
					continue
				}
				sl, ok := st.Val.(*ssa.Slice)
				if !ok {
					continue
				}
				al, ok := sl.X.(*ssa.Alloc)
				if !ok {
					continue
				}
				lo, hi := int64(inf), int64(-inf)
				n := 0
				for _, ref := range *al.Referrers() {
					ia, ok := ref.(*ssa.IndexAddr)
					if !ok {
						continue
					}
					for _, r2 := range *ia.Referrers() {
						if s2, ok := r2.(*ssa.Store); ok {
							k, ok := constInt(s2.Val)
							if !ok {
								return 0, 0, false
							}
							n++
							if k < lo {
								lo = k
							}
							if k > hi {
								hi = k
							}
						}
					}
				}
				if n > 0 {
					return lo, hi, true
				}
			}
		}
	}
	return 0, 0, false
}

// selector phis: phis with all-constant edges.
func selectorPhis(fn *ssa.Function) []*ssa.Phi {
	var out []*ssa.Phi
	for _, b := range fn.Blocks {
		for _, in := range b.Instrs {
			ph, ok := in.(*ssa.Phi)
			if !ok {
				break
			}
			all := true
			for _, e := range ph.Edges {
				if _, ok := e.(*ssa.Const); !ok {
					all = false
				}
			}
			if all && len(ph.Edges) <= 4 {
				if bt, ok := ph.Type().Underlying().(*types.Basic); ok && bt.Info()&types.IsInteger != 0 {
					out = append(out, ph)
				}
			}
		}
	}
	return out
}

type site struct {
	in   ssa.Instruction
	X    ssa.Value
	idx  ssa.Value // index, or slice low (high handled separately)
	high ssa.Value
	kind string
}

// sliceSiteAt: the obligation "0 ≤ idx ≤ len(X)" at instruction in.
func sliceSiteAt(in ssa.Instruction, X, idx ssa.Value) site {
	return site{in: in, X: X, idx: idx, kind: "slice"}
}

func indexSites(fn *ssa.Function) []site {
	var out []site
	for _, b := range fn.Blocks {
		for _, in := range b.Instrs {
			switch x := in.(type) {
			case *ssa.IndexAddr:
				out = append(out, site{in: in, X: x.X, idx: x.Index, kind: "index"})
			case *ssa.Index:
				out = append(out, site{in: in, X: x.X, idx: x.Index, kind: "index"})
			case *ssa.Slice:
				if x.Low != nil || x.High != nil {
					out = append(out, site{in: in, X: x.X, idx: x.Low, high: x.High, kind: "slice"})
				}
			}
		}
	}
	return out
}

func (c *Ctx) RuleIndexObligations(fns map[*ssa.Function]bool) {
	pre := c.observations(fns)
	for _, fn := range SortedFuncs(fns) {
		sel := selectorPhis(fn)
		obsList := pre[fn]
		if len(obsList) == 0 {
			obsList = []*precond{nil}
		}
		for _, s := range indexSites(fn) {
			// skip compiler-generated varargs arrays and local array literals with constant index
			if al, ok := s.X.(*ssa.Alloc); ok {
				if k, ok := constInt(s.idx); ok {
					if at, ok := al.Type().Underlying().(*types.Pointer).Elem().Underlying().(*types.Array); ok && k < at.Len() {
						continue
					}
				}
			}
			okAll := true
			why := ""
			// enumerate scenarios over selector phis that dominate the site
			var doms []*ssa.Phi
			for _, ph := range sel {
				if ph.Block().Dominates(s.in.Block()) {
					doms = append(doms, ph)
				}
			}
			var rec func(i int, sc map[*ssa.Phi]int, extra []fact)
			rec = func(i int, sc map[*ssa.Phi]int, extra []fact) {
				if i == len(doms) {
					for _, ob := range obsList {
						p := &prover{c: c, fn: fn, scenario: sc, extra: extra, pre: ob}
						if ok, w := p.prove(s); !ok {
							okAll = false
							why = w
						}
					}
					return
				}
				ph := doms[i]
				for e := range ph.Edges {
					sc2 := map[*ssa.Phi]int{}
					for k, v := range sc {
						sc2[k] = v
					}
					sc2[ph] = e
					p0 := &prover{c: c, fn: fn}
					rec(i+1, sc2, append(append([]fact{}, extra...), p0.edgeFacts(ph.Block().Preds[e], ph.Block())...))
				}
			}
			rec(0, map[*ssa.Phi]int{}, nil)
			desc := fmt.Sprintf("%s %s[%s]", s.kind, s.X.Name(), nameOf(s.idx))
			if okAll {
				c.add("discharged", "C18.T2", fn, s.in.Pos(), desc+" in bounds")
			} else {
				c.add("violated", "C18.T2", fn, s.in.Pos(), desc+" not proven in bounds: "+why)
			}
		}
	}
}

func nameOf(v ssa.Value) string {
	if v == nil {
		return ""
	}
	return v.Name()
}

func (p *prover) prove(s site) (bool, string) {
	b := s.in.Block()
	if s.kind == "slice" && p.submatchWindow(s, b) {
		return true, ""
	}
	llo, _ := p.lenBounds(s.X, b)
	root := lenRoot(s.X)
	var checkAt func(v ssa.Value, strict bool, b *ssa.BasicBlock, depth int) (bool, string)
	checkLT := func(v ssa.Value, strict bool) (bool, string) { return checkAt(v, strict, b, 0) }
	checkAt = func(v ssa.Value, strict bool, b *ssa.BasicBlock, depth int) (bool, string) {
		if v == nil {
			return true, ""
		}
		// a rewind counter J = phi(init, J-1) stays within [0, init]; J-1 behind J > 0 within [0, init-1]: bounded by
		// what bounds init on the edge entering the loop (the length of a value does not change in between)
		if depth < 3 {
			// len(Trim…(x[:h], …)) ≤ h: bounded by what bounds h
			if h := trimmedPrefixLen(v); h != nil {
				if ok, _ := checkAt(h, strict, b, depth+1); ok {
					return true, ""
				}
			}
			// helper(x, h) that moves the position h back: its result is ≤ h
			if h := p.rewindHelperArg(v); h != nil {
				if ok, _ := checkAt(h, strict, b, depth+1); ok {
					return true, ""
				}
			}
			if ph, ok := v.(*ssa.Phi); ok {
				if i, ok := p.rewindCounter(ph); ok {
					if init := p.eval(ph.Edges[i], ph.Block().Preds[i], 0); init.ok && (init.nonneg || init.lo >= 0) {
						if ok, _ := checkAt(ph.Edges[i], strict, ph.Block().Preds[i], depth+1); ok {
							return true, ""
						}
					}
				}
			}
			if bo, ok := v.(*ssa.BinOp); ok && bo.Op == token.SUB {
				if ph, isPh := bo.X.(*ssa.Phi); isPh {
					if k, isC := constInt(bo.Y); isC && k == 1 && p.positiveAt(ph, bo.Block()) {
						if i, ok := p.rewindCounter(ph); ok {
							if init := p.eval(ph.Edges[i], ph.Block().Preds[i], 0); init.ok && (init.nonneg || init.lo >= 0) {
								if ok, _ := checkAt(ph.Edges[i], false, ph.Block().Preds[i], depth+1); ok {
									return true, ""
								}
							}
						}
					}
				}
			}
		}
		// an integer parameter the callers have shown to be a position in the sequence parameter indexed here
		if prm, ok := v.(*ssa.Parameter); ok && p.pre != nil && !strict {
			pi, ri := paramIndex(p.fn, prm), paramIndex(p.fn, root)
			if pi >= 0 && ri >= 0 && p.pre.within[[2]int{pi, ri}] {
				return true, ""
			}
		}
		e := p.eval(v, b, 0)
		if !e.ok {
			return false, "index " + v.Name() + " has no bound"
		}
		// direct fact idx < len(X)
		for _, f := range p.facts(b) {
			if bound := ltBound(f, v); bound != nil {
				if l := p.evalNoFacts(bound); l.ok && l.base != nil && l.lo == 0 && l.hi == 0 && e.nonneg {
					if l.base == root {
						return true, ""
					}
					// idx < len(Y) and len(Y) <= len(X) by the callers' ordering of the arguments
					if p.pre != nil {
						bi, ri := paramIndex(p.fn, l.base), paramIndex(p.fn, root)
						if bi >= 0 && ri >= 0 && p.pre.le[[2]int{bi, ri}] {
							return true, ""
						}
					}
				}
			}
		}
		if e.base == nil {
			lim := llo
			if !strict {
				lim = llo + 1
			}
			if e.lo >= 0 && e.hi < lim {
				return true, ""
			}
			return false, fmt.Sprintf("%s in %v but len(%s) only known >= %d", v.Name(), e, s.X.Name(), llo)
		}
		// relative to a length
		maxOff := int64(-1)
		if !strict {
			maxOff = 0
		}
		if e.base == root {
			if e.hi <= maxOff && (e.nonneg || llo+e.lo >= 0) {
				return true, ""
			}
			return false, fmt.Sprintf("%s = %v, len >= %d", v.Name(), e, llo)
		}
		// relative to another value's length: need len(base) <= len(root)
		if p.pre != nil {
			bi, ri := paramIndex(p.fn, e.base), paramIndex(p.fn, root)
			if bi >= 0 && ri >= 0 && p.pre.le[[2]int{bi, ri}] && e.hi <= maxOff && e.nonneg {
				return true, ""
			}
		}
		return false, fmt.Sprintf("%s = %v is measured against len(%s), not against len(%s) (unit/length relation unknown)", v.Name(), e, e.base.Name(), s.X.Name())
	}
	if s.kind == "index" {
		return checkLT(s.idx, true)
	}
	if ok, w := checkLT(s.idx, false); !ok {
		return false, w
	}
	if ok, w := checkLT(s.high, false); !ok {
		return false, w
	}
	// both ends given: low ≤ high as well (each end within the length does not order them: `input[i:end]` with
	// end moved back past i panics)
	if s.idx != nil && s.high != nil && s.idx != s.high {
		lo, hi := p.eval(s.idx, b, 0), p.eval(s.high, b, 0)
		if lo.ok && hi.ok && lo.base == hi.base && lo.hi <= hi.lo {
			return true, ""
		}
		for _, f := range p.facts(b) {
			op := f.cond.Op
			if !f.truth {
				op = negate(op)
			}
			switch {
			case f.cond.X == s.idx && f.cond.Y == s.high && (op == token.LSS || op == token.LEQ || op == token.EQL):
				return true, ""
			case f.cond.X == s.high && f.cond.Y == s.idx && (op == token.GTR || op == token.GEQ || op == token.EQL):
				return true, ""
			}
		}
		return false, fmt.Sprintf("low end %s = %v is not shown to be at most the high end %s = %v", s.idx.Name(), lo, s.high.Name(), hi)
	}
	return true, ""
}

// rewindCounter: x = phi(init, x-1) whose decrement runs only behind x > 0 (x >= 1, x != 0): returns the index of
// the entry edge.
func (p *prover) rewindCounter(x *ssa.Phi) (int, bool) {
	if len(x.Edges) != 2 {
		return 0, false
	}
	for i := 0; i < 2; i++ {
		dec, okb := x.Edges[1-i].(*ssa.BinOp)
		if !okb || dec.Op != token.SUB || dec.X != ssa.Value(x) {
			continue
		}
		if st, ok := constInt(dec.Y); !ok || st != 1 {
			continue
		}
		if p.positiveAt(x, dec.Block()) {
			return i, true
		}
	}
	return 0, false
}

// positiveAt: a branch dominating b established x > 0.
func (p *prover) positiveAt(x ssa.Value, b *ssa.BasicBlock) bool {
	for _, f := range p.facts(b) {
		op := f.cond.Op
		if !f.truth {
			op = negate(op)
		}
		if f.cond.X != x {
			continue
		}
		if k, ok := constInt(f.cond.Y); ok && (op == token.GTR && k >= 0 || op == token.GEQ && k >= 1 || op == token.NEQ && k == 0) {
			return true
		}
	}
	return false
}

func paramIndex(fn *ssa.Function, v ssa.Value) int {
	for i, p := range fn.Params {
		if ssa.Value(p) == v {
			return i
		}
	}
	return -1
}

// observations: for every function of the set, how it is called from inside the set — one observation per call
// site, per observation of the caller and per selector-phi scenario at the call (so that correlated facts such as
// "offset 9 goes with length 45" survive). A function that can also be called from outside (exported, or used as a
// value) additionally gets the unconstrained observation nil. Recursion gets nil.
func (c *Ctx) observations(fns map[*ssa.Function]bool) map[*ssa.Function][]*precond {
	type site struct {
		caller *ssa.Function
		call   *ssa.Call
	}
	callers := map[*ssa.Function][]site{}
	usedAsValue := map[*ssa.Function]bool{}
	for caller := range fns {
		for _, b := range caller.Blocks {
			for _, in := range b.Instrs {
				if call, ok := in.(*ssa.Call); ok {
					if callee := c.StaticCallee(&call.Call); callee != nil && fns[origin(callee)] {
						callers[origin(callee)] = append(callers[origin(callee)], site{caller, call})
					}
				}
				for _, op := range in.Operands(nil) {
					if f, ok := (*op).(*ssa.Function); ok {
						if call, isCall := in.(ssa.CallInstruction); !isCall || call.Common().Value != ssa.Value(f) {
							usedAsValue[origin(f)] = true
						}
					}
				}
			}
		}
	}
	out := map[*ssa.Function][]*precond{}
	state := map[*ssa.Function]int{} // 1 in progress, 2 done
	var obsOf func(fn *ssa.Function) []*precond
	obsOf = func(fn *ssa.Function) []*precond {
		switch state[fn] {
		case 2:
			return out[fn]
		case 1:
			return []*precond{nil} // recursion: unconstrained
		}
		state[fn] = 1
		var list []*precond
		external := len(callers[fn]) == 0 || usedAsValue[fn] || fn.Parent() != nil
		if o := fn.Object(); o != nil && o.Exported() {
			external = true
		}
		if external {
			list = append(list, nil)
		}
		for _, st := range callers[fn] {
			b := st.call.Block()
			var doms []*ssa.Phi
			for _, ph := range selectorPhis(st.caller) {
				if ph.Block().Dominates(b) {
					doms = append(doms, ph)
				}
			}
			for _, cob := range obsOf(st.caller) {
				callArgs := st.call.Call.Args
				pickedMerge := false
				var rec func(i int, sc map[*ssa.Phi]int, extra []fact)
				rec = func(i int, sc map[*ssa.Phi]int, extra []fact) {
					if i < len(doms) {
						ph := doms[i]
						for e := range ph.Edges {
							sc2 := map[*ssa.Phi]int{}
							for k, v := range sc {
								sc2[k] = v
							}
							sc2[ph] = e
							p0 := &prover{c: c, fn: st.caller}
							rec(i+1, sc2, append(append([]fact{}, extra...), p0.edgeFacts(ph.Block().Preds[e], ph.Block())...))
						}
						return
					}
					// arguments that are phis of one merge block are selected together by the edge taken into that block
					// (`short, long := a, b; if la > lb { short, long = b, a }`): one observation per incoming edge
					var mergeBlk *ssa.BasicBlock
					for _, a := range st.call.Call.Args {
						if ph, ok := lenRoot(a).(*ssa.Phi); ok && (ph.Block() == b || ph.Block().Dominates(b)) {
							if mergeBlk == nil {
								mergeBlk = ph.Block()
							} else if mergeBlk != ph.Block() {
								mergeBlk = nil
								break
							}
						}
					}
					if mergeBlk != nil && len(mergeBlk.Preds) >= 2 && len(mergeBlk.Preds) <= 4 && !pickedMerge {
						for j := range mergeBlk.Preds {
							args2 := make([]ssa.Value, len(st.call.Call.Args))
							for ai, a := range st.call.Call.Args {
								args2[ai] = a
								if ph, ok := lenRoot(a).(*ssa.Phi); ok && ph.Block() == mergeBlk {
									args2[ai] = ph.Edges[j]
								}
							}
							p0 := &prover{c: c, fn: st.caller}
							ex2 := append(append([]fact{}, extra...), p0.edgeFacts(mergeBlk.Preds[j], mergeBlk)...)
							pickedMerge = true
							savedArgs := callArgs
							callArgs = args2
							rec(i, sc, ex2)
							callArgs = savedArgs
							pickedMerge = false
						}
						return
					}
					p := &prover{c: c, fn: st.caller, scenario: sc, extra: extra, pre: cob}
					o := &precond{lenLo: map[int]int64{}, lenHi: map[int]int64{}, valLo: map[int]int64{}, valHi: map[int]int64{}, le: map[[2]int]bool{}, within: map[[2]int]bool{}}
					for ai, a := range callArgs {
						switch t := a.Type().Underlying().(type) {
						case *types.Basic:
							if t.Info()&types.IsInteger != 0 {
								if e := p.eval(a, b, 0); e.ok && e.base == nil && e.lo > -inf && e.hi < inf {
									o.valLo[ai], o.valHi[ai] = e.lo, e.hi
								}
								continue
							}
							if t.Info()&types.IsString == 0 {
								continue
							}
						case *types.Slice, *types.Array, *types.TypeParam:
						case *types.Pointer:
							if _, isArr := t.Elem().Underlying().(*types.Array); !isArr {
								continue
							}
						default:
							if !isByteSeq(a.Type()) {
								continue
							}
						}
						o.lenLo[ai], o.lenHi[ai] = p.lenBounds(a, b)
					}
					// order facts between the lengths of two arguments
					for _, f := range p.facts(b) {
						l := p.evalNoFacts(f.cond.X)
						r := p.evalNoFacts(f.cond.Y)
						if !l.ok || !r.ok || l.base == nil || r.base == nil || l.lo != 0 || l.hi != 0 || r.lo != 0 || r.hi != 0 {
							continue
						}
						op := f.cond.Op
						if !f.truth {
							op = negate(op)
						}
						for ai, a := range callArgs {
							for aj, a2 := range callArgs {
								if lenRoot(a) == l.base && lenRoot(a2) == r.base {
									switch op {
									case token.LSS, token.LEQ:
										o.le[[2]int{ai, aj}] = true
									case token.GTR, token.GEQ:
										o.le[[2]int{aj, ai}] = true
									}
								}
							}
						}
					}
					// the caller's own argument order carries over when the same parameters are passed on
					if cob != nil {
						for ai, a := range callArgs {
							for aj, a2 := range callArgs {
								pi, pj := paramIndex(st.caller, lenRoot(a)), paramIndex(st.caller, lenRoot(a2))
								if pi >= 0 && pj >= 0 && cob.le[[2]int{pi, pj}] {
									o.le[[2]int{ai, aj}] = true
								}
							}
						}
					}
					// an integer argument that is a position in a sequence argument of the same call (helper(s, i) with
					// i ≤ len(s) shown at the call site): the helper may rely on it
					for ai, a := range st.call.Call.Args { // the call's own operands, not a merge edge's: the facts at the call speak of them
						bt, isInt := a.Type().Underlying().(*types.Basic)
						if !isInt || bt.Info()&types.IsInteger == 0 {
							continue
						}
						for aj, a2 := range st.call.Call.Args {
							if ai == aj || !isByteSeq(a2.Type()) {
								continue
							}
							if ok, _ := p.prove(sliceSiteAt(st.call, a2, a)); ok {
								o.within[[2]int{ai, aj}] = true
							}
						}
					}
					list = append(list, o)
				}
				rec(0, map[*ssa.Phi]int{}, nil)
			}
		}
		if len(list) > 32 {
			list = []*precond{hullOf(list)}
		}
		out[fn] = list
		state[fn] = 2
		return list
	}
	for fn := range fns {
		obsOf(fn)
	}
	return out
}

// hullOf merges observations into one that each of them implies (nil stays nil: unconstrained).
func hullOf(list []*precond) *precond {
	for _, o := range list {
		if o == nil {
			return nil
		}
	}
	h := &precond{lenLo: map[int]int64{}, lenHi: map[int]int64{}, valLo: map[int]int64{}, valHi: map[int]int64{}, le: map[[2]int]bool{}, within: map[[2]int]bool{}}
	merge := func(get func(*precond) (map[int]int64, map[int]int64), lo, hi map[int]int64) {
		l0, _ := get(list[0])
		for i := range l0 {
			a, b := int64(inf), int64(-inf)
			ok := true
			for _, o := range list {
				ol, oh := get(o)
				x, ok1 := ol[i]
				y, ok2 := oh[i]
				if !ok1 || !ok2 {
					ok = false
					break
				}
				if x < a {
					a = x
				}
				if y > b {
					b = y
				}
			}
			if ok {
				lo[i], hi[i] = a, b
			}
		}
	}
	merge(func(o *precond) (map[int]int64, map[int]int64) { return o.lenLo, o.lenHi }, h.lenLo, h.lenHi)
	merge(func(o *precond) (map[int]int64, map[int]int64) { return o.valLo, o.valHi }, h.valLo, h.valHi)
	for k := range list[0].le {
		all := true
		for _, o := range list {
			if !o.le[k] {
				all = false
			}
		}
		if all {
			h.le[k] = true
		}
	}
	for k := range list[0].within {
		all := true
		for _, o := range list {
			if !o.within[k] {
				all = false
			}
		}
		if all {
			h.within[k] = true
		}
	}
	return h
}

var _ = strings.HasPrefix

// submatchShape: v is nil or a slice of exactly n elements (n = 0: only nil seen). Recognised: the result of
// FindSubmatch/FindStringSubmatch on a known regexp, the nil constant, a merge of such values, the single result of a
// function of the module all of whose returns are such values with the same n, and make([]T, len(m)) for such an m.
// strict: a non-nil v has n elements (false once a make is involved: an empty non-nil slice is possible).
func (c *Ctx) submatchShape(v ssa.Value, depth int) (n int64, strict bool, ok bool) {
	if depth > 4 {
		return 0, false, false
	}
	merge := func(vals []ssa.Value) (int64, bool, bool) {
		var n int64
		strict := true
		for _, x := range vals {
			m, s, ok := c.submatchShape(x, depth+1)
			if !ok || m != 0 && n != 0 && m != n {
				return 0, false, false
			}
			if m != 0 {
				n = m
			}
			strict = strict && s
		}
		return n, strict, true
	}
	switch x := v.(type) {
	case *ssa.Const:
		if x.Value == nil {
			return 0, true, true
		}
	case *ssa.Phi:
		return merge(x.Edges)
	case *ssa.MakeSlice:
		if l, isCall := x.Len.(*ssa.Call); isCall {
			if bi, isB := l.Call.Value.(*ssa.Builtin); isB && bi.Name() == "len" && len(l.Call.Args) == 1 {
				if m, _, ok := c.submatchShape(l.Call.Args[0], depth+1); ok && m > 0 {
					return m, false, true
				}
			}
		}
	case *ssa.Call:
		f := x.Call.StaticCallee()
		if f == nil {
			return 0, false, false
		}
		if isFindSubmatch(origin(f).String()) {
			if re := c.regexpOf(x.Call.Args[0]); re != nil {
				return int64(re.MaxCap() + 1), true, true
			}
			return 0, false, false
		}
		if isFindSubmatchIndex(origin(f).String()) { // nil or one (start, end) pair per group and for the whole match
			if re := c.regexpOf(x.Call.Args[0]); re != nil {
				return 2 * int64(re.MaxCap()+1), true, true
			}
			return 0, false, false
		}
		if inRepo(f) && f.Signature.Results().Len() == 1 {
			var rets []ssa.Value
			for _, r := range Returns(origin(f)) {
				rets = append(rets, ReturnValues(r)[0])
			}
			if len(rets) > 0 {
				return merge(rets)
			}
		}
	}
	return 0, false, false
}

// isFindSubmatchIndex: the offset-returning siblings.
func isFindSubmatchIndex(name string) bool {
	return name == "(*regexp.Regexp).FindSubmatchIndex" || name == "(*regexp.Regexp).FindStringSubmatchIndex"
}

// submatchWindow: the slice X[loc[2k]:loc[2k+1]] where loc is the non-nil result of FindSubmatchIndex on (a form of)
// X itself and group k takes part in every match of the regexp (it does not sit under ?, *, {0,n} or an alternation):
// the engine's contract puts 0 <= loc[2k] <= loc[2k+1] <= len(X). For a group that may not take part both offsets are
// −1 and the slice panics: not accepted.
func (p *prover) submatchWindow(s site, b *ssa.BasicBlock) bool {
	if s.idx == nil || s.high == nil {
		return false
	}
	// the two offsets are loc[a·i+c] and loc[a·i+c+1] for one i, with a and c even: an offset pair
	var lowIndex ssa.Value
	elem := func(v ssa.Value) (ssa.Value, ssa.Value, int64, int64, bool) {
		ld, ok := v.(*ssa.UnOp)
		if !ok || ld.Op != token.MUL {
			return nil, nil, 0, 0, false
		}
		ia, ok := ld.X.(*ssa.IndexAddr)
		if !ok {
			return nil, nil, 0, 0, false
		}
		if lowIndex == nil {
			lowIndex = ia.Index
		}
		base, a, c, ok := linForm(ia.Index, 0)
		return ia.X, base, a, c, ok
	}
	l1, b1, a1, c1, ok1 := elem(s.idx)
	l2, b2, a2, c2, ok2 := elem(s.high)
	if !ok1 || !ok2 || l1 != l2 || b1 != b2 || a1 != a2 || a1%2 != 0 || c1%2 != 0 || c2 != c1+1 {
		return false
	}
	glo, ghi := c1/2, c1/2 // the groups the pair can stand for
	if b1 != nil && a1 != 0 {
		// the range of the low offset's index itself (the base may be the raw counter of a rotated range loop)
		r := p.eval(lowIndex, b, 0)
		if r.ok && r.base == nil && r.lo >= 0 && r.hi < 128 && r.lo%2 == 0 {
			glo, ghi = r.lo/2, r.hi/2
			goto groups
		}
		r = p.eval(b1, b, 0)
		if r.ok && r.base != nil { // measured against a length (the index of a range over a table): in numbers
			l0, l1 := p.lenBounds(r.base, b)
			if l1 >= inf {
				return false
			}
			r.lo, r.hi, r.base = l0+r.lo, l1+r.hi, nil
		}
		if !r.ok || r.base != nil || r.lo < 0 || r.hi >= 64 {
			return false
		}
		glo, ghi = (a1*r.lo+c1)/2, (a1*r.hi+c1)/2
	}
groups:
	lo := 2 * glo
	call, ok := l1.(*ssa.Call)
	if !ok {
		return false
	}
	f := call.Call.StaticCallee()
	if f == nil || !isFindSubmatchIndex(origin(f).String()) || len(call.Call.Args) != 2 {
		return false
	}
	re := p.c.regexpOf(call.Call.Args[0])
	if re == nil || lenRoot(call.Call.Args[1]) != lenRoot(s.X) {
		return false
	}
	// a match was found on every path to the slice
	if l, _ := p.lenBounds(l1, b); l < 1 && !p.nonNilFact(l1, b) {
		return false
	}
	_ = lo
	if glo < 0 || ghi > int64(re.MaxCap()) {
		return false
	}
	for g := glo; g <= ghi; g++ {
		if !mandatoryGroup(re, int(g)) {
			return false
		}
	}
	return true
}

// linForm: v = a·base + c for an SSA value base (nil for a constant), read off +, −, ·, << with constants.
func linForm(v ssa.Value, depth int) (base ssa.Value, a, c int64, ok bool) {
	if depth > 6 {
		return nil, 0, 0, false
	}
	if k, isK := constInt(v); isK {
		return nil, 0, k, true
	}
	switch x := v.(type) {
	case *ssa.Convert:
		return linForm(x.X, depth+1)
	case *ssa.BinOp:
		bx, ax, cx, okx := linForm(x.X, depth+1)
		by, ay, cy, oky := linForm(x.Y, depth+1)
		if !okx || !oky {
			break
		}
		switch x.Op {
		case token.ADD, token.SUB:
			sign := int64(1)
			if x.Op == token.SUB {
				sign = -1
			}
			switch {
			case bx == nil || ax == 0:
				if sign < 0 && by != nil && ay != 0 {
					return by, -ay, cx - cy, true
				}
				return by, sign * ay, cx + sign*cy, true
			case by == nil || ay == 0:
				return bx, ax, cx + sign*cy, true
			case bx == by:
				return bx, ax + sign*ay, cx + sign*cy, true
			}
		case token.MUL:
			switch {
			case bx == nil || ax == 0:
				return by, ay * cx, cy * cx, true
			case by == nil || ay == 0:
				return bx, ax * cy, cx * cy, true
			}
		case token.SHL:
			if (by == nil || ay == 0) && cy >= 0 && cy < 16 {
				return bx, ax << uint(cy), cx << uint(cy), true
			}
		}
		return nil, 0, 0, false
	}
	return v, 1, 0, true
}

// mandatoryGroup: capture group k lies on every path through re.
func mandatoryGroup(re *syntax.Regexp, k int) bool {
	if k == 0 {
		return true
	}
	var walk func(r *syntax.Regexp) bool
	walk = func(r *syntax.Regexp) bool {
		switch r.Op {
		case syntax.OpCapture:
			if r.Cap == k {
				return true
			}
			return walk(r.Sub[0])
		case syntax.OpConcat:
			for _, sub := range r.Sub {
				if walk(sub) {
					return true
				}
			}
		case syntax.OpPlus:
			return walk(r.Sub[0])
		case syntax.OpRepeat:
			if r.Min >= 1 {
				return walk(r.Sub[0])
			}
		}
		return false // alternation, ?, *, {0,n}: the group may be skipped
	}
	return walk(re)
}

// isFindSubmatch: the two sibling forms (bytes / string subject) with the same length contract.
func isFindSubmatch(name string) bool {
	return name == "(*regexp.Regexp).FindSubmatch" || name == "(*regexp.Regexp).FindStringSubmatch"
}

// ltBound: if fact f implies v < B for some value B, returns B. Forms: `v < B`, `B > v` (either polarity through
// negation), and `v != B` for a counter v = phi(0, v+1) — by induction 0 <= v <= B at the loop head when B is a
// length, so v != B gives v < B.
func ltBound(f fact, v ssa.Value) ssa.Value {
	op := f.cond.Op
	if !f.truth {
		op = negate(op)
	}
	switch {
	case op == token.LSS && f.cond.X == v:
		return f.cond.Y
	case op == token.GTR && f.cond.Y == v:
		return f.cond.X
	case op == token.NEQ && isZeroUnitCounter(v):
		var other ssa.Value
		switch {
		case f.cond.X == v:
			other = f.cond.Y
		case f.cond.Y == v:
			other = f.cond.X
		default:
			return nil
		}
		// the bound must be a length computed outside the loop (invariant): a len() call not in the counter's loop
		if c, ok := other.(*ssa.Call); ok {
			if bi, ok := c.Call.Value.(*ssa.Builtin); ok && bi.Name() == "len" {
				ph := v.(*ssa.Phi)
				if c.Block() != ph.Block() && c.Block().Dominates(ph.Block()) {
					return other
				}
			}
		}
	}
	return nil
}

// isZeroUnitCounter: v = phi(0, v+1).
func isZeroUnitCounter(v ssa.Value) bool {
	ph, ok := v.(*ssa.Phi)
	if !ok || len(ph.Edges) != 2 {
		return false
	}
	for i := 0; i < 2; i++ {
		c0, okc := constInt(ph.Edges[i])
		bo, okb := ph.Edges[1-i].(*ssa.BinOp)
		if okc && c0 == 0 && okb && bo.Op == token.ADD && bo.X == ssa.Value(ph) {
			if st, ok := constInt(bo.Y); ok && st == 1 {
				return true
			}
		}
	}
	return false
}

// nonNilFact: a dominating branch established v != nil.
func (p *prover) nonNilFact(v ssa.Value, b *ssa.BasicBlock) bool {
	for _, f := range p.facts(b) {
		op := f.cond.Op
		if !f.truth {
			op = negate(op)
		}
		if op == token.NEQ && (f.cond.X == v && isNilConst(f.cond.Y) || f.cond.Y == v && isNilConst(f.cond.X)) {
			return true
		}
	}
	return false
}

// guardHelperBounds: facts of the form `h(args…) == nil` (error result) dominating b, where root is passed to h:
// the length range of that parameter at every return of h that carries a nil error.
func (p *prover) guardHelperBounds(root ssa.Value, b *ssa.BasicBlock) (int64, int64, bool) {
	if p.depth > 2 {
		return 0, 0, false
	}
	found := false
	lo, hi := int64(0), int64(inf)
	for _, f := range p.facts(b) {
		op := f.cond.Op
		if !f.truth {
			op = negate(op)
		}
		if op != token.EQL || !isNilConst(f.cond.Y) {
			continue
		}
		var call *ssa.Call
		errIdx := -1
		switch v := f.cond.X.(type) {
		case *ssa.Call:
			call, errIdx = v, 0
		case *ssa.Extract:
			if c, ok := v.Tuple.(*ssa.Call); ok {
				call, errIdx = c, v.Index
			}
		}
		if call == nil {
			continue
		}
		h := p.c.StaticCallee(&call.Call)
		if h == nil || !inRepo(h) || len(h.Blocks) == 0 {
			continue
		}
		h = origin(h)
		for ai, a := range call.Call.Args {
			if lenRoot(a) != root || ai >= len(h.Params) {
				continue
			}
			q := &prover{c: p.c, fn: h, scenario: map[*ssa.Phi]int{}, depth: p.depth + 1}
			hlo, hhi := int64(inf), int64(-inf)
			n := 0
			for _, hb := range h.Blocks {
				ret, ok := hb.Instrs[len(hb.Instrs)-1].(*ssa.Return)
				if !ok || errIdx >= len(ret.Results) || !isNilConst(ret.Results[errIdx]) {
					// a return whose error may be non-nil does not reach the caller's nil edge... unless the value is not a
					// constant: then nothing is known
					if ok && errIdx < len(ret.Results) {
						if _, isConst := ret.Results[errIdx].(*ssa.Const); !isConst && !p.c.nonNilError(ret.Results[errIdx], 0) {
							n = -1 << 20 // may be nil dynamically: give up
						}
					}
					continue
				}
				l, u := q.lenBounds(h.Params[ai], hb)
				if l < hlo {
					hlo = l
				}
				if u > hhi {
					hhi = u
				}
				n++
			}
			if n > 0 {
				found = true
				if hlo > lo {
					lo = hlo
				}
				if hhi < hi {
					hi = hhi
				}
			}
		}
	}
	return lo, hi, found
}

// nonNilError: v is certainly a non-nil error: a boxed concrete value, fmt.Errorf / errors.New, or the result of a
// function of the module all of whose returns are such values.
func (c *Ctx) nonNilError(v ssa.Value, depth int) bool {
	if depth > 3 {
		return false
	}
	switch x := v.(type) {
	case *ssa.MakeInterface:
		return true
	case *ssa.Call:
		f := c.StaticCallee(&x.Call)
		if f == nil {
			return false
		}
		switch origin(f).String() {
		case "fmt.Errorf", "errors.New":
			return true
		}
		if !inRepo(f) || len(f.Blocks) == 0 {
			return false
		}
		for _, b := range origin(f).Blocks {
			if ret, ok := b.Instrs[len(b.Instrs)-1].(*ssa.Return); ok {
				if len(ret.Results) == 0 || !c.nonNilError(ret.Results[len(ret.Results)-1], depth+1) {
					return false
				}
			}
		}
		return true
	case *ssa.Phi:
		for _, e := range x.Edges {
			if !c.nonNilError(e, depth+1) {
				return false
			}
		}
		return true
	}
	return false
}

// reachingStore: ld loads a local cell (an Alloc); if exactly one store of the function into that cell can reach the
// load along the control-flow graph, the value it stored is what the load yields. (A closure that writes the cell
// through its free variable makes the question open: nil.)
func reachingStore(ld *ssa.UnOp) ssa.Value {
	al, ok := ld.X.(*ssa.Alloc)
	if !ok || ld.Op != token.MUL || al.Referrers() == nil {
		return nil
	}
	var stores []*ssa.Store
	for _, r := range *al.Referrers() {
		switch x := r.(type) {
		case *ssa.Store:
			if x.Addr == ssa.Value(al) {
				stores = append(stores, x)
			} else {
				return nil // the address itself is stored somewhere
			}
		case *ssa.UnOp:
		case *ssa.MakeClosure:
			// captured: the closure must not write it
			fn, _ := x.Fn.(*ssa.Function)
			if fn == nil {
				return nil
			}
			for i, b := range x.Bindings {
				if b != ssa.Value(al) || i >= len(fn.FreeVars) {
					continue
				}
				if fv := fn.FreeVars[i]; fv.Referrers() != nil {
					for _, fr := range *fv.Referrers() {
						if st, isSt := fr.(*ssa.Store); isSt && st.Addr == ssa.Value(fv) {
							return nil
						}
						if _, isLd := fr.(*ssa.UnOp); !isLd {
							if _, isSt := fr.(*ssa.Store); !isSt {
								return nil
							}
						}
					}
				}
			}
		default:
			return nil
		}
	}
	// which stores can reach the load?
	lb := ld.Block()
	reach := func(st *ssa.Store) bool {
		sb := st.Block()
		if sb == lb {
			for _, in := range sb.Instrs {
				if in == ssa.Instruction(st) {
					return true // earlier in the same block
				}
				if in == ssa.Instruction(ld) {
					break
				}
			}
		}
		seen := map[*ssa.BasicBlock]bool{}
		work := append([]*ssa.BasicBlock{}, sb.Succs...)
		for len(work) > 0 {
			b := work[len(work)-1]
			work = work[:len(work)-1]
			if seen[b] {
				continue
			}
			seen[b] = true
			if b == lb {
				return true
			}
			work = append(work, b.Succs...)
		}
		return false
	}
	var only *ssa.Store
	for _, st := range stores {
		if reach(st) {
			if only != nil {
				// two stores on the way: the later one in the same block wins only in straight-line code; keep it simple
				return nil
			}
			only = st
		}
	}
	if only == nil {
		return nil
	}
	return only.Val
}

// trimmedPrefixLen: v = len(T(x[:h], …)) with T a Trim function of strings / bytes — returns h.
func trimmedPrefixLen(v ssa.Value) ssa.Value {
	inner, ok := isLenOf(v)
	if !ok {
		return nil
	}
	tc, ok := lenRoot(inner).(*ssa.Call)
	if !ok || len(tc.Call.Args) < 1 {
		return nil
	}
	f := tc.Call.StaticCallee()
	if f == nil || f.Pkg == nil || (f.Pkg.Pkg.Path() != "strings" && f.Pkg.Pkg.Path() != "bytes") || !strings.HasPrefix(f.Name(), "Trim") {
		return nil
	}
	sl, ok := lenRoot(tc.Call.Args[0]).(*ssa.Slice)
	if !ok || sl.Low != nil || sl.High == nil {
		return nil
	}
	return sl.High
}

// rewindHelperArg: v is a call of a function of the module whose one result is a rewind counter (phi(init, self−1),
// decremented only behind self > 0) started at one of its parameters: returns the matching argument — the result
// lies between 0 and it.
func (p *prover) rewindHelperArg(v ssa.Value) ssa.Value {
	call, ok := v.(*ssa.Call)
	if !ok {
		return nil
	}
	callee := p.c.StaticCallee(&call.Call)
	if callee == nil || !inRepo(callee) {
		return nil
	}
	g := origin(callee)
	var res ssa.Value
	n := 0
	for _, gb := range g.Blocks {
		if r, ok := gb.Instrs[len(gb.Instrs)-1].(*ssa.Return); ok {
			n++
			if len(r.Results) == 1 {
				res = r.Results[0]
			}
		}
	}
	ph, ok := res.(*ssa.Phi)
	if !ok || n != 1 {
		return nil
	}
	q := &prover{c: p.c, fn: g}
	ei, ok := q.rewindCounter(ph)
	if !ok {
		return nil
	}
	prm, ok := ph.Edges[ei].(*ssa.Parameter)
	if !ok {
		return nil
	}
	if k := paramIndex(g, prm); k >= 0 && k < len(call.Call.Args) {
		return call.Call.Args[k]
	}
	return nil
}
