package flow

import (
	"fmt"
	"go/token"
	"go/types"
	"strings"

	"golang.org/x/tools/go/ssa"
)

// ---------- S-WRAP(i): error args of fmt.Errorf are bound to %w ----------

type fmtItem struct {
	Verb  rune
	Flags string
	Width string
	Prec  string
	Lit   string // for literal items
	ArgIx int    // explicit [n] index or -1
}

// parseFormat splits a fmt format into literal and verb items (enough for this repo's formats).
func parseFormat(f string) []fmtItem {
	var items []fmtItem
	lit := ""
	for i := 0; i < len(f); i++ {
		if f[i] != '%' {
			lit += string(f[i])
			continue
		}
		if i+1 < len(f) && f[i+1] == '%' {
			lit += "%"
			i++
			continue
		}
		if lit != "" {
			items = append(items, fmtItem{Lit: lit})
			lit = ""
		}
		it := fmtItem{ArgIx: -1}
		i++
		for i < len(f) && strings.ContainsRune("+-# 0", rune(f[i])) {
			it.Flags += string(f[i])
			i++
		}
		if i < len(f) && f[i] == '[' {
			j := strings.IndexByte(f[i:], ']')
			fmt.Sscanf(f[i+1:i+j], "%d", &it.ArgIx)
			i += j + 1
		}
		for i < len(f) && f[i] >= '0' && f[i] <= '9' {
			it.Width += string(f[i])
			i++
		}
		if i < len(f) && f[i] == '.' {
			i++
			it.Prec = "0"
			for i < len(f) && f[i] >= '0' && f[i] <= '9' {
				if it.Prec == "0" {
					it.Prec = ""
				}
				it.Prec += string(f[i])
				i++
			}
		}
		if i < len(f) {
			it.Verb = rune(f[i])
		}
		items = append(items, it)
	}
	if lit != "" {
		items = append(items, fmtItem{Lit: lit})
	}
	return items
}

func (c *Ctx) RuleWrap(fns []*ssa.Function) {
	n := 0
	for _, fn := range fns {
		// an error flattened to its text on the way up (errors.New("…: " + err.Error()), "%s" of err.Error()): the message is
		// the same, the chain is gone. Error() methods themselves (which render what they carry) are not on the way up.
		res := fn.Signature.Results()
		returnsErr := res.Len() > 0 && isErrorType(res.At(res.Len()-1).Type())
		if returnsErr && !(fn.Signature.Recv() != nil && (fn.Name() == "Error" || fn.Name() == "String")) {
			for _, b := range fn.Blocks {
				for _, in := range b.Instrs {
					ec, ok := in.(*ssa.Call)
					if !ok || !ec.Call.IsInvoke() || ec.Call.Method.Name() != "Error" || !isErrorType(ec.Call.Value.Type()) {
						continue
					}
					// its text becomes (part of) a new error
					feeds := false
					seen := map[ssa.Value]bool{}
					var walk func(v ssa.Value, depth int)
					walk = func(v ssa.Value, depth int) {
						if seen[v] || depth > 6 || v.Referrers() == nil {
							return
						}
						seen[v] = true
						for _, r := range *v.Referrers() {
							switch x := r.(type) {
							case *ssa.Call:
								if f := x.Call.StaticCallee(); f != nil && (f.String() == "errors.New" || f.String() == "fmt.Errorf") {
									feeds = true
								}
							case *ssa.BinOp, *ssa.MakeInterface, *ssa.Phi, *ssa.Slice:
								walk(x.(ssa.Value), depth+1)
							case *ssa.Store:
								if ia, ok := x.Addr.(*ssa.IndexAddr); ok { // a variadic operand
									walk(ia.X, depth+1)
								}
							}
						}
					}
					walk(ec, 0)
					if feeds {
						c.add("violated", "S-WRAP", fn, ec.Pos(), "an error is flattened to its text (err.Error()) and a new error is made from it: errors.Is / errors.As no longer find what it wrapped")
					}
				}
			}
		}
		for _, b := range fn.Blocks {
			for _, in := range b.Instrs {
				call, ok := in.(*ssa.Call)
				if !ok {
					continue
				}
				callee := call.Call.StaticCallee()
				if callee == nil || callee.String() != "fmt.Errorf" {
					continue
				}
				n++
				format, ok := constString(call.Call.Args[0])
				if !ok {
					c.add("undecided", "S-WRAP", fn, call.Pos(), "non-constant format")
					continue
				}
				args := varargs(call.Call.Args[1])
				k := 0
				bad := false
				for _, it := range parseFormat(format) {
					if it.Lit != "" || it.Verb == 0 {
						continue
					}
					ix := k
					if it.ArgIx > 0 {
						ix = it.ArgIx - 1
					}
					k = ix + 1
					if ix >= len(args) || args[ix] == nil {
						continue
					}
					if isErrorType(strip1iface(args[ix]).Type()) && it.Verb != 'w' {
						c.add("violated", "S-WRAP", fn, call.Pos(), fmt.Sprintf("error operand %d of %q bound to %%%c, not %%w", ix, format, it.Verb))
						bad = true
					}
				}
				if !bad {
					c.add("discharged", "S-WRAP", fn, call.Pos(), fmt.Sprintf("%q", format))
				}
			}
		}
	}
	_ = n
}

// strip1iface looks through MakeInterface/ChangeInterface to the operand whose static type matters.
func strip1iface(v ssa.Value) ssa.Value {
	for {
		switch x := v.(type) {
		case *ssa.MakeInterface:
			return x.X
		case *ssa.ChangeInterface:
			v = x.X
		default:
			return v
		}
	}
}

// ---------- S-ERRZERO: error return => zero value ----------

func isZeroValue(v ssa.Value) bool {
	switch x := v.(type) {
	case *ssa.Const:
		if x.Value == nil {
			return true
		}
		switch x.Value.Kind().String() {
		}
		s := x.Value.ExactString()
		return s == "0" || s == `""` || s == "false"
	}
	return false
}

// resultsOf describes (value operands, error operand) of a return in a function whose last result is error.
func (c *Ctx) RuleErrZero(fns []*ssa.Function) {
	// "a zero result" is what the caller of the package gets: the exported functions and methods, and every function
	// of the module whose results one of them hands on unchanged (`return unmarshalText(…)`). An unexported helper
	// that gives back its argument next to an error (`trimPrefix(in) (in, err)`) returns to code that discards it.
	checked := map[*ssa.Function]bool{}
	var work []*ssa.Function
	for _, fn := range fns {
		exported := fn.Object() != nil && fn.Object().Exported()
		if fn.Object() == nil { // closures, instantiations: decided by what encloses / originates them
			exported = false
		}
		if exported {
			checked[origin(fn)] = true
			work = append(work, origin(fn))
		}
	}
	for len(work) > 0 {
		fn := work[len(work)-1]
		work = work[:len(work)-1]
		for _, b := range fn.Blocks {
			ret, ok := b.Instrs[len(b.Instrs)-1].(*ssa.Return)
			if !ok {
				continue
			}
			results := ReturnValues(ret)
			if len(results) == 0 || !passThrough(results) {
				continue
			}
			if call, ok := results[0].(*ssa.Extract).Tuple.(*ssa.Call); ok {
				if g := c.StaticCallee(&call.Call); g != nil && inRepo(g) && !checked[origin(g)] {
					checked[origin(g)] = true
					work = append(work, origin(g))
				}
			}
		}
	}
	for _, fn := range fns {
		sig := fn.Signature
		if sig.Results().Len() < 2 || !isErrorType(sig.Results().At(sig.Results().Len()-1).Type()) {
			continue
		}
		if !checked[origin(fn)] {
			continue
		}
		for _, b := range fn.Blocks {
			ret, ok := b.Instrs[len(b.Instrs)-1].(*ssa.Return)
			if !ok {
				continue
			}
			if b == fn.Recover && !defersRecover(fn) {
				continue // go/ssa's landing block for a recovered panic: nothing this function defers can recover
			}
			results := ReturnValues(ret)
			errv := results[len(results)-1]
			if isNilConst(errv) {
				continue
			}
			// pass-through of a callee tuple: all results are extracts of the same call
			if passThrough(results) {
				c.add("discharged", "S-ERRZERO", fn, ret.Pos(), "pass-through of callee results")
				continue
			}
			ok2 := true
			for _, r := range results[:len(results)-1] {
				// an appender that fails hands the caller's own buffer back, unchanged (the convention of the Append…
				// family): that is the caller's value, not a result the failed call produced
				if p, isParam := r.(*ssa.Parameter); isParam {
					if sl, isSl := p.Type().Underlying().(*types.Slice); isSl {
						if bt, ok := sl.Elem().Underlying().(*types.Basic); ok && bt.Kind() == types.Uint8 {
							continue
						}
					}
				}
				if !isZeroValue(r) {
					// a value that is only non-zero on the nil-error path? check phi of extracts: conservative
					ok2 = false
				}
			}
			if ok2 {
				c.add("discharged", "S-ERRZERO", fn, ret.Pos(), "zero value with error")
			} else {
				c.add("violated", "S-ERRZERO", fn, ret.Pos(), fmt.Sprintf("non-zero value %s returned with possibly non-nil error %s", results[0], errv))
			}
		}
	}
}

// ReturnValues gives the operands of a return with go/ssa's result spill undone: in a function with a defer, or
// whose named results are address-taken, the builder stores every result into a result cell, (runs the defers) and
// returns the reloaded cells. Where nothing between the store and the reload can write the cell — only stores to
// other cells, loads, and a rundefers for a cell no closure or callee has the address of — the reload is the value
// stored last in that block.
func ReturnValues(ret *ssa.Return) []ssa.Value {
	out := make([]ssa.Value, len(ret.Results))
	copy(out, ret.Results)
	blk := ret.Block()
	for i, r := range out {
		ld, ok := r.(*ssa.UnOp)
		if !ok || ld.Op != token.MUL || ld.Block() != blk {
			continue
		}
		cell, ok := ld.X.(*ssa.Alloc)
		if !ok {
			continue
		}
		// may a deferred function reach the cell? (captured by a closure, address passed on or stored)
		shared := false
		for _, u := range *cell.Referrers() {
			switch x := u.(type) {
			case *ssa.UnOp, *ssa.DebugRef, *ssa.FieldAddr, *ssa.IndexAddr:
			case *ssa.Store:
				if x.Val == ssa.Value(cell) {
					shared = true
				}
			default:
				shared = true
			}
		}
		var last ssa.Value
		clean := true
		for _, in := range blk.Instrs {
			if in == ssa.Instruction(ld) {
				break
			}
			switch x := in.(type) {
			case *ssa.Store:
				if x.Addr == ssa.Value(cell) {
					last, clean = x.Val, true
					continue
				}
				if a, isAlloc := x.Addr.(*ssa.Alloc); !isAlloc || a == cell {
					clean = false // a store through a computed address: may be a field of the cell
				}
			case *ssa.UnOp, *ssa.DebugRef:
			case *ssa.RunDefers:
				if shared {
					clean = false
				}
			default:
				clean = false
			}
		}
		if last != nil && clean {
			out[i] = last
		}
	}
	return out
}

// defersRecover: some deferred function of fn (a closure or a function of the module) calls recover().
func defersRecover(fn *ssa.Function) bool {
	for _, b := range fn.Blocks {
		for _, in := range b.Instrs {
			d, ok := in.(*ssa.Defer)
			if !ok {
				continue
			}
			var callee *ssa.Function
			switch v := d.Call.Value.(type) {
			case *ssa.MakeClosure:
				callee, _ = v.Fn.(*ssa.Function)
			case *ssa.Function:
				callee = v
			case *ssa.Builtin:
				if v.Name() == "recover" {
					return true
				}
				continue
			}
			if callee == nil {
				return true // dynamic: unknown
			}
			for _, cb := range callee.Blocks {
				for _, cin := range cb.Instrs {
					if c, ok := cin.(*ssa.Call); ok {
						if bi, ok := c.Call.Value.(*ssa.Builtin); ok && bi.Name() == "recover" {
							return true
						}
					}
				}
			}
		}
	}
	return false
}

func passThrough(results []ssa.Value) bool {
	var tup ssa.Value
	for i, r := range results {
		e, ok := r.(*ssa.Extract)
		if !ok || e.Index != i {
			return false
		}
		if tup == nil {
			tup = e.Tuple
		} else if tup != e.Tuple {
			return false
		}
	}
	return tup != nil
}

// ---------- C17.store: no store to receiver-derived memory reaches an error return ----------

// writesRecv reports whether fn (a method with pointer receiver) stores through its receiver.
func (c *Ctx) writesThroughParam(fn *ssa.Function, idx int, depth int) []ssa.Instruction {
	if depth > 4 || len(fn.Params) <= idx {
		return nil
	}
	derived := map[ssa.Value]bool{fn.Params[idx]: true}
	spill := map[ssa.Value]bool{}
	var sites []ssa.Instruction
	changed := true
	for changed {
		changed = false
		for _, b := range fn.Blocks {
			for _, in := range b.Instrs {
				switch x := in.(type) {
				case *ssa.FieldAddr:
					if derived[x.X] && !derived[x] {
						derived[x] = true
						changed = true
					}
				case *ssa.IndexAddr:
					if derived[x.X] && !derived[x] {
						derived[x] = true
						changed = true
					}
				case *ssa.ChangeType: // (*uint64)(s): the same memory under another pointer type
					if derived[x.X] && !derived[x] {
						derived[x] = true
						changed = true
					}
				case *ssa.Convert:
					if _, isPtr := x.Type().Underlying().(*types.Pointer); isPtr && derived[x.X] && !derived[x] {
						derived[x] = true
						changed = true
					}
				case *ssa.Phi: // p := i; if … { p = &other }: may be the receiver
					if !derived[x] {
						for _, ed := range x.Edges {
							if derived[ed] {
								derived[x] = true
								changed = true
							}
						}
					}
				case *ssa.Store: // the receiver spilled into a cell (captured by a closure): loads of the cell are the receiver
					if derived[x.Val] {
						if a, ok := x.Addr.(*ssa.Alloc); ok && !derived[a] {
							spill[a] = true
						}
					}
				case *ssa.UnOp:
					if x.Op == token.MUL && spill[x.X] && !derived[x] {
						derived[x] = true
						changed = true
					}
				}
			}
		}
	}
	for _, b := range fn.Blocks {
		for _, in := range b.Instrs {
			switch x := in.(type) {
			case *ssa.Store:
				if derived[x.Addr] {
					sites = append(sites, in)
				}
			case *ssa.MakeClosure:
				// a closure that captures the receiver (its cell): stores through it inside the closure count at the
				// place the closure is created (a deferred closure runs on every return, error returns included)
				cl, ok := x.Fn.(*ssa.Function)
				if !ok {
					continue
				}
				for bi, bv := range x.Bindings {
					if (derived[bv] || spill[bv]) && bi < len(cl.FreeVars) && closureWritesThrough(cl, cl.FreeVars[bi], spill[bv]) {
						sites = append(sites, in)
					}
				}
			case *ssa.Call:
				callee := c.StaticCallee(&x.Call)
				if callee == nil || !inRepo(callee) {
					// a pointer into the receiver handed to code outside the module (binary.Read(r, order, &d.year),
					// json.Unmarshal(data, s)): taken to write through it
					for _, a := range x.Call.Args {
						v := a
						if mi, ok := v.(*ssa.MakeInterface); ok {
							v = mi.X
						}
						if _, isPtr := v.Type().Underlying().(*types.Pointer); isPtr && derived[v] {
							sites = append(sites, in)
						}
					}
					continue
				}
				for ai, a := range x.Call.Args {
					if derived[a] {
						if len(c.writesThroughParam(callee, ai, depth+1)) > 0 {
							sites = append(sites, in)
						}
					}
				}
			}
		}
	}
	return sites
}

// closureWritesThrough: the closure body stores through free variable fv (the pointer itself, or — cell — a cell
// holding the pointer).
func closureWritesThrough(cl *ssa.Function, fv *ssa.FreeVar, cell bool) bool {
	derived := map[ssa.Value]bool{}
	if !cell {
		derived[fv] = true
	}
	for changed := true; changed; {
		changed = false
		for _, b := range cl.Blocks {
			for _, in := range b.Instrs {
				switch x := in.(type) {
				case *ssa.UnOp:
					if cell && x.Op == token.MUL && x.X == ssa.Value(fv) && !derived[x] {
						derived[x] = true
						changed = true
					}
				case *ssa.FieldAddr:
					if derived[x.X] && !derived[x] {
						derived[x] = true
						changed = true
					}
				case *ssa.IndexAddr:
					if derived[x.X] && !derived[x] {
						derived[x] = true
						changed = true
					}
				case *ssa.ChangeType:
					if derived[x.X] && !derived[x] {
						derived[x] = true
						changed = true
					}
				}
			}
		}
	}
	for _, b := range cl.Blocks {
		for _, in := range b.Instrs {
			if st, ok := in.(*ssa.Store); ok && derived[st.Addr] {
				return true
			}
		}
	}
	return false
}

// nilOnEdge: the error value v is nil when control comes from pred: the nil constant, or a value a dominating
// branch of pred established to be nil (`if err == nil { … }`).
func nilOnEdge(v ssa.Value, pred *ssa.BasicBlock) bool {
	if isNilConst(v) {
		return true
	}
	for d := pred; d != nil; d = d.Idom() {
		id := d.Idom()
		if id == nil {
			break
		}
		iff, ok := id.Instrs[len(id.Instrs)-1].(*ssa.If)
		if !ok {
			continue
		}
		bo, ok := iff.Cond.(*ssa.BinOp)
		if !ok || !(bo.X == v && isNilConst(bo.Y) || bo.Y == v && isNilConst(bo.X)) {
			continue
		}
		t, f := id.Succs[0], id.Succs[1]
		viaT := (t == d || t.Dominates(d)) && len(t.Preds) == 1
		viaF := (f == d || f.Dominates(d)) && len(f.Preds) == 1
		if bo.Op == token.EQL && viaT && !viaF || bo.Op == token.NEQ && viaF && !viaT {
			return true
		}
	}
	return false
}

func (c *Ctx) RuleStoreThenError(fns []*ssa.Function) {
	for _, fn := range fns {
		res := fn.Signature.Results()
		if res.Len() == 0 || !isErrorType(res.At(res.Len()-1).Type()) || fn.Signature.Recv() == nil {
			continue
		}
		if _, ok := fn.Signature.Recv().Type().(*types.Pointer); !ok {
			continue
		}
		sites := c.writesThroughParam(fn, 0, 0)
		bad := false
		for _, s := range sites {
			blk := s.Block()
			// returns in the same block after s, and in reachable blocks
			cands := []*ssa.BasicBlock{blk}
			for b := range reachFrom(blk) {
				cands = append(cands, b)
			}
			for _, b := range cands {
				ret, ok := b.Instrs[len(b.Instrs)-1].(*ssa.Return)
				if !ok {
					continue
				}
				if b == blk && !reachFrom(blk)[blk] {
					// same block: s precedes ret trivially
				}
				errv := ReturnValues(ret)[len(ret.Results)-1]
				if isNilConst(errv) {
					continue
				}
				// a merged error value: only the edges that carry a possibly non-nil error and that the store can reach count
				if ph, isPhi := errv.(*ssa.Phi); isPhi && ph.Block() == b {
					reaches := false
					from := reachFrom(blk)
					for i, ed := range ph.Edges {
						p := b.Preds[i]
						if nilOnEdge(ed, p) {
							continue
						}
						// the store sits in the merging block itself: it runs after the merge whichever edge was taken
						if p == blk || from[p] || blk == b {
							reaches = true
						}
					}
					if !reaches {
						continue
					}
				} else if nilOnEdge(errv, b) {
					continue
				}
				// the store happens inside a callee of the module whose own error is what this return hands on (directly, or
				// behind `if err != nil`): the callee stores only where it returns nil if it passes this rule itself
				// … unless the call can run again before the return (a loop: the store of one iteration is in place when
				// the next one fails)
				if call, isCall := s.(*ssa.Call); isCall && !reachFrom(call.Block())[call.Block()] && c.calleeStoresOnlyOnSuccess(call, errv, b, 0) {
					continue
				}
				c.add("violated", "C17.store", fn, s.Pos(), fmt.Sprintf("store through receiver can reach error return at line %d", c.Prog.Fset.Position(ret.Pos()).Line))
				bad = true
			}
		}
		if len(sites) == 0 {
			// a method that decodes into its receiver stores through it somewhere: finding no store at all means the
			// analysis lost the receiver (an idiom it does not follow), not that the method is safe
			c.add("undecided", "C17.store", fn, fn.Pos(), "no store through the receiver found in a method that decodes into it: the receiver escapes the tracked forms (fields, elements, pointer conversions, merges, captured cell, callees of the module)")
			continue
		}
		if !bad {
			c.add("discharged", "C17.store", fn, fn.Pos(), fmt.Sprintf("%d receiver store site(s), none reaches an error return", len(sites)))
		}
	}
}

// calleeStoresOnlyOnSuccess: call is a call of a module function that writes through the receiver handed to it; the
// error returned in block b (value errv) is that call's own error result — returned as it is, or b is reached only
// through the non-nil side of a test of it — and the callee itself never lets a store reach a non-nil error return.
func (c *Ctx) calleeStoresOnlyOnSuccess(call *ssa.Call, errv ssa.Value, b *ssa.BasicBlock, depth int) bool {
	callee := c.StaticCallee(&call.Call)
	if callee == nil || !inRepo(callee) || depth > 3 {
		return false
	}
	res := callee.Signature.Results()
	if res.Len() == 0 || !isErrorType(res.At(res.Len()-1).Type()) {
		return false
	}
	// the callee's error result in the caller
	var cerr ssa.Value
	if res.Len() == 1 {
		cerr = call
	} else {
		for _, r := range *call.Referrers() {
			if ex, ok := r.(*ssa.Extract); ok && ex.Index == res.Len()-1 {
				cerr = ex
			}
		}
	}
	if cerr == nil {
		return false
	}
	handsOn := errv == cerr
	if !handsOn {
		for _, r := range *cerr.Referrers() {
			bo, ok := r.(*ssa.BinOp)
			if !ok || bo.Op != token.NEQ || !isNilConst(bo.Y) {
				continue
			}
			for _, r2 := range *bo.Referrers() {
				if iff, ok := r2.(*ssa.If); ok {
					if t := iff.Block().Succs[0]; len(t.Preds) == 1 && t.Dominates(b) {
						handsOn = true
					}
				}
			}
		}
	}
	if !handsOn {
		return false
	}
	// the callee under the same rule, for each receiver-derived argument
	o := origin(callee)
	for ai := range call.Call.Args {
		sites := c.writesThroughParam(o, ai, 0)
		for _, s := range sites {
			blk := s.Block()
			cands := []*ssa.BasicBlock{blk}
			for rb := range reachFrom(blk) {
				cands = append(cands, rb)
			}
			for _, rb := range cands {
				ret, ok := rb.Instrs[len(rb.Instrs)-1].(*ssa.Return)
				if !ok {
					continue
				}
				ev := ReturnValues(ret)[len(ret.Results)-1]
				if isNilConst(ev) || nilOnEdge(ev, rb) {
					continue
				}
				if inner, isCall := s.(*ssa.Call); isCall && c.calleeStoresOnlyOnSuccess(inner, ev, rb, depth+1) {
					continue
				}
				return false
			}
		}
	}
	return true
}

// ---------- limit variable discipline (C12.zero, part of C18.L) ----------

// RuleLimitZero: every ordering comparison against a load of an exported Max* int global must be
// conjoined with a != 0 / > 0 test of the same global on the path (dominating If true-edge).
func (c *Ctx) RuleLimitZero(fns []*ssa.Function, varName string) {
	// the limit limits and does nothing else: a value read from it is compared (with 0, with a length) or printed in
	// the too-long message; a reservation sized by it (Builder.Grow(MaxInputLength), make(…, MaxInputLength)), a
	// pattern built from it, arithmetic on it make memory or behaviour follow the configuration instead of the input
	if varName == "MaxInputLength" {
		for _, fn := range fns {
			for _, b := range fn.Blocks {
				for _, in := range b.Instrs {
					ld, ok := in.(*ssa.UnOp)
					if !ok || ld.Op != token.MUL {
						continue
					}
					g, ok := ld.X.(*ssa.Global)
					if !ok || g.Name() != varName || ld.Referrers() == nil {
						continue
					}
					seenPhi := map[ssa.Value]bool{}
					var uses func(v ssa.Value)
					uses = func(v ssa.Value) {
						if seenPhi[v] || v.Referrers() == nil {
							return
						}
						seenPhi[v] = true
						for _, r := range *v.Referrers() {
							switch x := r.(type) {
							case *ssa.DebugRef, *ssa.MakeInterface: // printed in the message
							case *ssa.BinOp:
								switch x.Op {
								case token.EQL, token.NEQ, token.LSS, token.LEQ, token.GTR, token.GEQ:
								default:
									c.addc("violated", "C18.L", fn, x.Pos(), "limit use", varName+" enters an arithmetic expression: the limit is to be compared with a length, nothing else", "")
								}
							case *ssa.Phi:
								// a local copy (`limit := MaxInputLength; if limit == 0 { limit = 32 }`): the copy is held to
								// the same uses
								uses(x)
							case *ssa.Store:
							default:
								c.addc("violated", "C18.L", fn, r.Pos(), "limit use", varName+" is used for something other than a comparison or the too-long message ("+r.String()+"): a reservation, a pattern or a bound built from the limit follows the configuration, not the input — a raised limit allocates (or panics) on every call", "MaxInputLength = math.MaxInt")
							}
						}
					}
					uses(ld)
				}
			}
		}
	}
	for _, fn := range fns {
		for _, b := range fn.Blocks {
			for _, in := range b.Instrs {
				bo, ok := in.(*ssa.BinOp)
				if !ok {
					continue
				}
				switch bo.Op {
				case token.GTR, token.LSS, token.GEQ, token.LEQ:
				default:
					continue
				}
				var g *ssa.Global
				var other ssa.Value
				if gg := globalLoad(bo.X); gg != nil {
					g, other = gg, bo.Y
				} else if gg := globalLoad(bo.Y); gg != nil {
					g, other = gg, bo.X
				}
				if g == nil || !strings.HasPrefix(g.Name(), "Max") || !g.Object().Exported() || (varName != "" && g.Name() != varName) {
					continue
				}
				if _, isConst := other.(*ssa.Const); isConst {
					continue // this is itself a `Max > 0` style test
				}
				// normalised strictness: the edge that rejects must be taken exactly when value > Max. The rejecting edge
				// is the successor that leads only to error returns; with the comparison on the true edge that is
				// `value > Max` / `Max < value`, on the false edge `value <= Max` / `Max >= value`.
				// what is measured against the input-length limit is the byte length of one input text — len of a
				// parameter (through string/[]byte conversions only), or an integer parameter standing for it in a guard
				// helper: `l+1 > Max`, `len([]rune(s)) > Max`, `len(a)+len(b) > Max` reject or admit other texts
				if g.Name() == "MaxInputLength" && !byteLenOfParam(other) {
					c.add("violated", "C18.L", fn, bo.Pos(), "what is compared with "+g.Name()+" is not the byte length of the input ("+other.String()+"): inputs within the limit can be refused, or longer ones admitted")
					continue
				}
				maxOnRight := globalLoad(bo.Y) != nil
				strictTrue := (bo.Op == token.GTR && maxOnRight) || (bo.Op == token.LSS && !maxOnRight)
				strictFalse := (bo.Op == token.LEQ && maxOnRight) || (bo.Op == token.GEQ && !maxOnRight)
				strict := strictTrue
				for _, r := range *bo.Referrers() {
					if iff, ok := r.(*ssa.If); ok {
						t, f := iff.Block().Succs[0], iff.Block().Succs[1]
						te, fe := leadsOnlyToErrors(t), leadsOnlyToErrors(f)
						switch {
						case te && !fe:
							strict = strictTrue
						case fe && !te:
							strict = strictFalse
						}
					}
				}
				// find dominating zero-test of g (or, the conjunction commuted, the zero test the too-long edge leads to)
				commuted := false
				for _, r := range *bo.Referrers() {
					if iff, ok := r.(*ssa.If); ok {
						for _, s := range iff.Block().Succs {
							if _, isTest := nonZeroTestBlock(s, g); isTest && len(s.Preds) == 1 {
								commuted = true
							}
						}
					}
				}
				if commuted || c.dominatedByNonZeroTest(bo.Block(), g) {
					msg := "compared under `" + g.Name() + " != 0`"
					if !strict {
						c.add("violated", "C18.L", fn, bo.Pos(), "limit comparison is not the strict `len > "+g.Name()+"`")
					} else {
						c.add("discharged", "LIMIT0", fn, bo.Pos(), msg)
					}
				} else {
					c.add("violated", "LIMIT0", fn, bo.Pos(), "comparison against "+g.Name()+" is not conjoined with a `!= 0` test although 0 is documented to disable the limit")
				}
			}
		}
	}
}

// byteLenOfParam: v is len(p) for a parameter p reached through conversions between byte-sequence types only (string,
// []byte, a ParserInput type parameter — not []rune), or an integer parameter (the length handed to a guard helper).
func byteLenOfParam(v ssa.Value) bool {
	v = stripConv(v)
	if p, ok := v.(*ssa.Parameter); ok {
		return isIntParam(p)
	}
	arg, ok := isLenOf(v)
	if !ok {
		return false
	}
	for i := 0; i < 8; i++ {
		switch x := arg.(type) {
		case *ssa.Parameter:
			return true
		case *ssa.MultiConvert:
			arg = x.X
		case *ssa.ChangeType:
			arg = x.X
		case *ssa.Convert:
			if !byteSeq(x.Type()) || !byteSeq(x.X.Type()) {
				return false
			}
			arg = x.X
		case *ssa.UnOp: // a parameter captured by a closure lives in a cell
			if p := rootParam(x); p != nil {
				return true
			}
			return false
		default:
			return false
		}
	}
	return false
}

// byteSeq: string or []byte (by underlying type).
func byteSeq(t types.Type) bool {
	switch u := t.Underlying().(type) {
	case *types.Basic:
		return u.Info()&types.IsString != 0
	case *types.Slice:
		b, ok := u.Elem().Underlying().(*types.Basic)
		return ok && b.Kind() == types.Uint8
	}
	return false
}

func (c *Ctx) dominatedByNonZeroTest(b *ssa.BasicBlock, g *ssa.Global) bool {
	for d := b; d != nil; d = d.Idom() {
		id := d.Idom()
		if id == nil {
			break
		}
		iff, ok := id.Instrs[len(id.Instrs)-1].(*ssa.If)
		if !ok {
			continue
		}
		cond, ok := iff.Cond.(*ssa.BinOp)
		if !ok {
			continue
		}
		var isG bool
		var k int64
		var kok bool
		if globalLoad(cond.X) == g {
			isG = true
			k, kok = constInt(cond.Y)
		}
		if !isG || !kok || k != 0 {
			continue
		}
		// which edge leads to d?
		trueEdge := id.Succs[0] == d || id.Succs[0].Dominates(d) && !(id.Succs[1] == d || id.Succs[1].Dominates(d))
		// `!= 0` or `> 0`: the two differ for a negative limit only, which is outside the documented settings
		// (0 = off, otherwise a length) and outside what the property quantifies over
		switch cond.Op {
		case token.NEQ, token.GTR:
			if trueEdge {
				return true
			}
		case token.EQL, token.LEQ:
			if !trueEdge {
				return true
			}
		}
	}
	return false
}

// ---------- C19.lock ----------

func (c *Ctx) RuleLock(pkg *ssa.Package, varName, muName string) {
	g := pkg.Var(varName)
	mu := pkg.Var(muName)
	if g == nil || mu == nil {
		c.add("undecided", "C19.lock", nil, token.NoPos, "anchor globals not found")
		return
	}
	if _, isPtr := mu.Type().(*types.Pointer).Elem().Underlying().(*types.Pointer); isPtr {
		// the mutex is held by pointer: the pointer is set in the package initialiser and nowhere else, and only
		// loaded to call its methods (a second mutex swapped in protects nothing)
		for _, fn := range SortedFuncs(c.AllRepoFuncs()) {
			for _, b := range fn.Blocks {
				for _, in := range b.Instrs {
					for _, op := range in.Operands(nil) {
						if *op != ssa.Value(mu) {
							continue
						}
						st, isStore := in.(*ssa.Store)
						ld, isLoad := in.(*ssa.UnOp)
						switch {
						case isStore && st.Addr == ssa.Value(mu) && fn.Name() == "init" && fn.Parent() == nil:
						case isLoad && ld.Op == token.MUL && onlyMutexReceiver(ld):
						default:
							c.addc("violated", "C19.lock", fn, in.Pos(), "mutex pointer", muName+" is a pointer that is set or handed on outside the package initialiser: the lock taken need not be the lock the other callers take", "")
						}
					}
				}
			}
		}
	}
	users := 0
	for _, fn := range SortedFuncs(c.AllRepoFuncs()) {
		if fn.Name() == "init" {
			continue
		}
		for _, b := range fn.Blocks {
			for _, in := range b.Instrs {
				uses := false
				for _, op := range in.Operands(nil) {
					if *op == g {
						uses = true
					}
				}
				if !uses {
					continue
				}
				users++
				// the use must be a load whose value is only used as receiver of method calls
				ld, ok := in.(*ssa.UnOp)
				if !ok {
					c.add("violated", "C19.lock", fn, in.Pos(), varName+" used other than by load")
					continue
				}
				for _, r := range *ld.Referrers() {
					if _, dbg := r.(*ssa.DebugRef); dbg {
						continue
					}
					call, ok := r.(*ssa.Call)
					// handed to a function value that fn was given (`withRandom(func(r *rand.Rand) { … })`): fine if the call
					// runs under the lock and every function the module passes in only draws from the generator
					if ok && !call.Call.IsInvoke() {
						if fp, isParam := call.Call.Value.(*ssa.Parameter); isParam {
							if why := c.onlyDrawingCallbacks(fn, fp, call, ld); why != "" {
								c.add("violated", "C19.lock", fn, r.Pos(), varName+" is handed to a function value: "+why)
							} else if !c.lockHeldAt(fn, call, mu) {
								c.add("violated", "C19.lock", fn, call.Pos(), "the generator is handed to a callback while "+muName+" is not held on every path")
							}
							continue
						}
					}
					if !ok || len(call.Call.Args) == 0 || call.Call.Args[0] != ld {
						c.add("violated", "C19.lock", fn, r.Pos(), varName+" escapes (not a method call receiver)")
						continue
					}
					// only drawing methods: re-seeding the shared generator restarts its stream within a run — with a seed
					// installed before, or with a clock reading that two re-seedings can share (a per-call
					// Seed(time.Now().Unix()) repeats the same IDs for a whole second)
					// a method of the generator's own type: a plain function handed the generator as its first argument
					// (`checked(random)`) can return or keep it, and what it does is not read here
					if f := call.Call.StaticCallee(); f != nil && f.Signature.Recv() == nil {
						c.add("violated", "C19.lock", fn, r.Pos(), varName+" escapes (handed to "+FnName(f)+", not a method call receiver)")
						continue
					}
					if f := call.Call.StaticCallee(); f == nil || f.Name() == "Seed" {
						c.addc("violated", "C19.lock", fn, r.Pos(), "reseed", "the shared generator is re-seeded after initialisation ("+varName+".Seed): the stream restarts, and IDs already handed out are produced again whenever two seeds coincide (a clock reading taken twice within its resolution, a saved seed)", "random.Seed(time.Now().Unix()) on every call: 1000 draws, 2 distinct IDs")
					}
					// the call itself runs with the lock held (the value may have been loaded under the lock and used later)
					if !c.lockHeldAt(fn, call, mu) {
						c.add("violated", "C19.lock", fn, call.Pos(), "the generator's method is called while "+muName+" is not held on every path (loaded under the lock, used after Unlock?)")
					}
				}
				// the load happens with the lock held on every path, and fn has deferred Unlock on mu
				if !c.lockHeldAt(fn, in, mu) {
					c.add("violated", "C19.lock", fn, in.Pos(), "access to "+varName+" while "+muName+" is not held on every path reaching it")
				} else if !c.releasedAfter(fn, in, mu) {
					c.add("violated", "C19.lock", fn, in.Pos(), "the mutex is not released on every path after the access (no deferred "+muName+".Unlock(), and some path to a return passes no Unlock)")
				} else {
					c.add("discharged", "C19.lock", fn, in.Pos(), "access to "+varName+" under "+muName)
				}
			}
		}
	}
	if users == 0 {
		c.add("undecided", "C19.lock", nil, token.NoPos, "no use of "+varName+" found")
	}
}

// onlyDrawingCallbacks: fn calls its function-typed parameter fp with the generator gen as an argument; every call
// of fn in the module passes a function literal (or named function) in which that parameter is used only as the
// receiver of methods other than Seed. Returns "" if so, otherwise the reason.
func (c *Ctx) onlyDrawingCallbacks(fn *ssa.Function, fp *ssa.Parameter, call *ssa.Call, gen ssa.Value) string {
	if fn.Object() != nil && fn.Object().Exported() {
		return "the function is exported, its callers are not all known"
	}
	pi, ai := -1, -1
	for i, q := range fn.Params {
		if q == fp {
			pi = i
		}
	}
	for i, a := range call.Call.Args {
		if a == gen {
			ai = i
		}
	}
	if pi < 0 || ai < 0 {
		return "callback parameter not identified"
	}
	sites := 0
	for g := range c.allFuncs {
		if !inRepo(g) {
			continue
		}
		for _, b := range g.Blocks {
			for _, in := range b.Instrs {
				ci, ok := in.(ssa.CallInstruction)
				if !ok {
					continue
				}
				cc := ci.Common()
				if h := c.StaticCallee(cc); h == nil || origin(h) != origin(fn) {
					continue
				}
				sites++
				if pi >= len(cc.Args) {
					return "call site without the callback argument"
				}
				var cb *ssa.Function
				switch x := cc.Args[pi].(type) {
				case *ssa.MakeClosure:
					cb, _ = x.Fn.(*ssa.Function)
				case *ssa.Function:
					cb = x
				}
				if cb == nil || len(cb.Blocks) == 0 || ai >= len(cb.Params) {
					return "a call site passes a function that is not a literal of the module"
				}
				for _, r := range *cb.Params[ai].Referrers() {
					if _, dbg := r.(*ssa.DebugRef); dbg {
						continue
					}
					mc, ok := r.(*ssa.Call)
					if !ok || len(mc.Call.Args) == 0 || mc.Call.Args[0] != ssa.Value(cb.Params[ai]) {
						return "the callback at " + c.Prog.Fset.Position(cb.Pos()).String() + " lets the generator escape"
					}
					if f := mc.Call.StaticCallee(); f == nil || f.Name() == "Seed" {
						return "the callback re-seeds the generator or calls it dynamically"
					} else if f.Signature.Recv() == nil {
						return "the callback at " + c.Prog.Fset.Position(cb.Pos()).String() + " hands the generator to " + FnName(f) + " (not a method call)"
					}
				}
			}
		}
	}
	if sites == 0 {
		return "no call site found"
	}
	return ""
}

func isMutexCall(in ssa.Instruction, mu *ssa.Global, name string) bool {
	var cc *ssa.CallCommon
	switch x := in.(type) {
	case *ssa.Call:
		cc = &x.Call
	case *ssa.Defer:
		cc = &x.Call
	default:
		return false
	}
	f := cc.StaticCallee()
	if f == nil || f.String() != "(*sync.Mutex)."+name || len(cc.Args) != 1 {
		return false
	}
	if cc.Args[0] == mu {
		return true
	}
	// a mutex held by pointer (var mu = &sync.Mutex{}): the receiver is a load of the variable; RuleLock checks that
	// the variable is set once, in the package initialiser
	ld, ok := cc.Args[0].(*ssa.UnOp)
	return ok && ld.Op == token.MUL && ld.X == ssa.Value(mu)
}

// lockHeldAt: must-held analysis of mu over fn's flow graph: entering fn the lock is held only if fn is an unexported
// function of the module all of whose call sites hold it (one level); Lock sets, Unlock clears (a deferred Unlock
// does not clear inside the body), a merge holds only what every predecessor holds. True if mu is held at `at`.
func (c *Ctx) lockHeldAt(fn *ssa.Function, at ssa.Instruction, mu *ssa.Global) bool {
	return c.lockHeld(fn, at, mu, 0)
}

func (c *Ctx) lockHeld(fn *ssa.Function, at ssa.Instruction, mu *ssa.Global, depth int) bool {
	entry := false
	if depth < 2 && fn.Object() != nil && !fn.Object().Exported() && fn.Parent() == nil {
		sites, all := 0, true
		for caller := range c.AllRepoFuncs() {
			for _, b := range caller.Blocks {
				for _, in := range b.Instrs {
					// the function used as a value (handed to a helper, stored): whoever calls it is not known
					for _, op := range in.Operands(nil) {
						if g, isFn := (*op).(*ssa.Function); isFn && origin(g) == origin(fn) {
							if ci, isCall := in.(ssa.CallInstruction); !isCall || op != &ci.Common().Value {
								all = false
							}
						}
					}
					call, ok := in.(ssa.CallInstruction)
					if !ok {
						continue
					}
					if f := c.StaticCallee(call.Common()); f == nil || origin(f) != origin(fn) {
						continue
					}
					if _, isCall := in.(*ssa.Call); !isCall { // go / defer: runs at another time
						all = false
						continue
					}
					sites++
					if !c.lockHeld(caller, in, mu, depth+1) {
						all = false
					}
				}
			}
		}
		entry = sites > 0 && all
	}
	in := map[*ssa.BasicBlock]bool{}
	out := map[*ssa.BasicBlock]bool{}
	for _, b := range fn.Blocks {
		in[b], out[b] = true, true // optimistic start for the must-analysis
	}
	transfer := func(b *ssa.BasicBlock, held bool, stopAt ssa.Instruction) (bool, bool) {
		for _, i := range b.Instrs {
			if i == stopAt {
				return held, true
			}
			if _, isCall := i.(*ssa.Call); isCall {
				switch {
				case isMutexCall(i, mu, "Lock"):
					held = true
				case isMutexCall(i, mu, "Unlock"):
					held = false
				}
			}
		}
		return held, false
	}
	for changed := true; changed; {
		changed = false
		for _, b := range fn.Blocks {
			h := true
			if b == fn.Blocks[0] {
				h = entry
			}
			for _, p := range b.Preds {
				h = h && out[p]
			}
			if len(b.Preds) == 0 && b != fn.Blocks[0] {
				h = false
			}
			o, _ := transfer(b, h, nil)
			if h != in[b] || o != out[b] {
				in[b], out[b] = h, o
				changed = true
			}
		}
	}
	h, found := transfer(at.Block(), in[at.Block()], at)
	return found && h
}

// releasedAfter: the mutex is released on every path after `at`: a deferred Unlock in fn, an Unlock on every path to
// fn's exits — or, where fn itself never locks (the lock is held by its callers, see lockHeld), the same at every call
// site of fn.
func (c *Ctx) releasedAfter(fn *ssa.Function, at ssa.Instruction, mu *ssa.Global) bool {
	if c.hasDeferredUnlock(fn, mu) || c.unlockOnEveryPath(fn, at, mu) {
		return true
	}
	for _, b := range fn.Blocks {
		for _, in := range b.Instrs {
			if _, ok := in.(*ssa.Call); ok && isMutexCall(in, mu, "Lock") {
				return false // fn locks itself and does not release
			}
		}
	}
	sites := 0
	for caller := range c.AllRepoFuncs() {
		for _, b := range caller.Blocks {
			for _, in := range b.Instrs {
				call, ok := in.(*ssa.Call)
				if !ok {
					continue
				}
				if f := c.StaticCallee(&call.Call); f == nil || origin(f) != origin(fn) {
					continue
				}
				sites++
				if !c.hasDeferredUnlock(caller, mu) && !c.unlockOnEveryPath(caller, call, mu) {
					return false
				}
			}
		}
	}
	return sites > 0
}

func (c *Ctx) lockDominates(fn *ssa.Function, at ssa.Instruction, mu *ssa.Global) bool {
	for _, b := range fn.Blocks {
		for i, in := range b.Instrs {
			if _, ok := in.(*ssa.Call); !ok || !isMutexCall(in, mu, "Lock") {
				continue
			}
			if b == at.Block() {
				for _, in2 := range b.Instrs[i:] {
					if in2 == at {
						return true
					}
				}
			} else if b.Dominates(at.Block()) {
				return true
			}
		}
	}
	return false
}

func (c *Ctx) hasDeferredUnlock(fn *ssa.Function, mu *ssa.Global) bool {
	for _, b := range fn.Blocks {
		for _, in := range b.Instrs {
			if _, ok := in.(*ssa.Defer); ok && isMutexCall(in, mu, "Unlock") {
				return true
			}
		}
	}
	return false
}

// ---------- C08.trim ----------

func (c *Ctx) RuleTrim(fns map[*ssa.Function]bool) {
	n := 0
	for _, fn := range SortedFuncs(fns) {
		for _, b := range fn.Blocks {
			for _, in := range b.Instrs {
				call, ok := in.(*ssa.Call)
				if !ok {
					continue
				}
				f := call.Call.StaticCallee()
				if f == nil {
					continue
				}
				switch f.String() {
				case "strings.TrimSuffix", "strings.TrimPrefix", "bytes.TrimSuffix", "bytes.TrimPrefix":
					if s, ok := constString(stripConv(call.Call.Args[1])); ok && strings.TrimSpace(s) == "" && s != "" {
						n++
						c.addc("violated", "C08.trim", fn, call.Pos(), f.Name(), fmt.Sprintf("%s with all-space cutset %q removes at most one occurrence; whitespace around the whole must be ignored without bound", f.Name(), s), "\"1KiB  \"")
					}
				case "strings.TrimRight", "strings.Trim", "bytes.TrimRight", "bytes.Trim":
					if s, ok := constString(stripConv(call.Call.Args[1])); ok && strings.Contains(s, " ") {
						n++
						c.addc("discharged", "C08.trim", fn, call.Pos(), f.Name(), f.Name()+" removes trailing spaces without bound", "")
					}
				case "strings.TrimSpace", "bytes.TrimSpace":
					n++
					c.addc("discharged", "C08.trim", fn, call.Pos(), f.Name(), f.Name()+" removes surrounding white space without bound", "")
				}
			}
		}
	}
	if n == 0 {
		c.addc("undecided", "C08.trim", nil, token.NoPos, "trailing-space idiom", "no recognised removal of trailing spaces on the text path (idioms: strings.TrimRight/Trim with a cutset containing ' ', TrimSpace)", "")
	}
}

// ---------- C06.sep: some constant containing '.' must be used in the comparator ----------

func (c *Ctx) RuleSeparatorAware(fns map[*ssa.Function]bool, sep byte) {
	found := false
	var first *ssa.Function
	for _, fn := range SortedFuncs(fns) {
		if first == nil {
			first = fn
		}
		for _, b := range fn.Blocks {
			for _, in := range b.Instrs {
				for _, op := range in.Operands(nil) {
					if k, ok := (*op).(*ssa.Const); ok && k.Value != nil {
						if s, ok := constString(k); ok && strings.IndexByte(s, sep) >= 0 {
							found = true
						}
						if i, ok := constInt(k); ok && i == int64(sep) {
							if bt, ok := k.Type().Underlying().(*types.Basic); ok && (bt.Kind() == types.Uint8 || bt.Kind() == types.Int32 || bt.Kind() == types.UntypedRune) {
								found = true
							}
						}
					}
					// regexps used: globals holding *regexp.Regexp — patterns checked separately by LANG
				}
			}
		}
	}
	if found {
		c.addc("discharged", "C06.sep", first, token.NoPos, "separator", "separator constant referenced", "")
	} else {
		names := []string{}
		for _, fn := range SortedFuncs(fns) {
			names = append(names, FnName(fn))
		}
		c.addc("violated", "C06.sep", first, token.NoPos, "separator", fmt.Sprintf("no constant containing %q in %v: identifiers are never separated", string(sep), names), "1.0.0-a.b vs 1.0.0-a-")
	}
}

// RuleNoOtherGlobals: fn and its in-repo callees touch no package-level variable other than the allowed ones.
func (c *Ctx) RuleNoOtherGlobals(fn *ssa.Function, allowed map[string]bool) {
	if fn == nil {
		return
	}
	bad := false
	for _, f := range SortedFuncs(c.Reachable(fn)) {
		for _, b := range f.Blocks {
			for _, in := range b.Instrs {
				for _, op := range in.Operands(nil) {
					if g, ok := (*op).(*ssa.Global); ok && !allowed[g.Name()] && inRepoPkg(g.Pkg) {
						c.addc("violated", "C19.lock", f, in.Pos(), "global "+g.Name(), "RandomID's call tree touches package-level state "+g.Name()+" outside the mutex-protected generator", "")
						bad = true
					}
				}
			}
		}
	}
	if !bad {
		c.addc("discharged", "C19.lock", fn, fn.Pos(), "other globals", "RandomID's call tree touches no package-level state besides the generator and its mutex", "")
	}
}

func inRepoPkg(p *ssa.Package) bool {
	return p != nil && strings.HasPrefix(p.Pkg.Path(), "go.lstv.dev/util")
}

// RuleTypedErrors (S-WRAP ii): every possibly non-nil error a parser-level function returns is the package's
// typed parse error (a MakeInterface of *<errType>[T]) or the error result of an in-repo callee for which the
// same holds.
func (c *Ctx) RuleTypedErrors(rule string, fn *ssa.Function, errType string) {
	c.typedErrors(rule, fn, errType, map[*ssa.Function]bool{})
}

func (c *Ctx) typedErrors(rule string, fn *ssa.Function, errType string, seen map[*ssa.Function]bool) {
	if seen[fn] {
		return
	}
	seen[fn] = true
	n, bad := 0, 0
	var check func(v ssa.Value, pos token.Pos, depth int)
	check = func(v ssa.Value, pos token.Pos, depth int) {
		if isNilConst(v) || depth > 6 {
			return
		}
		switch x := v.(type) {
		case *ssa.MakeInterface:
			n++
			t := x.X.Type()
			if p, ok := t.(*types.Pointer); ok {
				t = p.Elem()
			}
			if nt, ok := t.(*types.Named); ok && nt.Obj().Name() == errType && nt.Obj().Pkg() == fn.Pkg.Pkg {
				return
			}
			bad++
			c.addc("violated", rule, fn, pos, "error type", "returns an error of type "+types.TypeString(x.X.Type(), nil)+" instead of the package's typed "+errType, "")
		case *ssa.Extract:
			call, ok := x.Tuple.(*ssa.Call)
			if !ok {
				n++
				bad++
				c.addc("undecided", rule, fn, pos, "error origin", "error extracted from a non-call tuple", "")
				return
			}
			callee := c.StaticCallee(&call.Call)
			if callee == nil || !inRepo(callee) {
				n++
				bad++
				name := "a dynamic callee"
				if callee != nil {
					name = callee.String()
				}
				c.addc("violated", rule, fn, pos, "error origin", "passes the untyped error of "+name+" through instead of wrapping it in "+errType, "")
				return
			}
			c.typedErrors(rule, callee, errType, seen)
		case *ssa.Call:
			// single error result of a callee: a constructor helper of the module is checked by this rule in turn
			callee := c.StaticCallee(&x.Call)
			switch {
			case callee != nil && inRepo(callee):
				c.typedErrors(rule, callee, errType, seen)
			case callee != nil:
				n++
				bad++
				c.addc("violated", rule, fn, pos, "error origin", "returns the untyped error built by "+callee.String()+" instead of the package's typed "+errType, "")
			default:
				n++
				bad++
				c.addc("undecided", rule, fn, pos, "error origin", "error produced by a dynamic callee", "")
			}
		case *ssa.Phi:
			for _, e := range x.Edges {
				check(e, pos, depth+1)
			}
		case *ssa.UnOp:
			// load of a named result spilled because of defer, or of a sentinel global
			n++
			bad++
			c.addc("violated", rule, fn, pos, "error origin", "returns a bare error value (sentinel or variable) instead of the typed "+errType, "")
		default:
			n++
			bad++
			c.addc("undecided", rule, fn, pos, "error origin", fmt.Sprintf("error operand of unrecognised origin %T", v), "")
		}
	}
	for _, b := range fn.Blocks {
		ret, ok := b.Instrs[len(b.Instrs)-1].(*ssa.Return)
		if !ok || len(ret.Results) == 0 {
			continue
		}
		e := ret.Results[len(ret.Results)-1]
		if !isErrorType(e.Type()) {
			continue
		}
		check(e, ret.Pos(), 0)
	}
	if bad == 0 {
		c.addc("discharged", rule, fn, fn.Pos(), "error type", fmt.Sprintf("every non-nil error returned is the typed %s (%d construction site(s)) or comes from a callee checked by this rule", errType, n), "")
	}
}

// RuleTableConst (S-TABLECONST): the package-level table is written only by package initialisation: no Store to
// the global, no MapUpdate / element store through a load of it, and its address is not taken elsewhere.
func (c *Ctx) RuleTableConst(rule string, g *ssa.Global) {
	bad := false
	for _, fn := range SortedFuncs(c.AllRepoFuncs()) {
		if fn.Name() == "init" && fn.Pkg == g.Pkg {
			// the initialiser fills the table; it may not give it a second name (`var unitAliases = unitToValues`:
			// whoever writes through the other variable writes the table)
			for _, b := range fn.Blocks {
				for _, in := range b.Instrs {
					st, ok := in.(*ssa.Store)
					if !ok || globalLoad(st.Val) != g {
						continue
					}
					if other, isG := st.Addr.(*ssa.Global); isG && other != g {
						c.addc("undecided", rule, fn, st.Pos(), "reference "+g.Name(), "the table "+g.Name()+" (a reference) is also stored in the package variable "+other.Name()+": who writes through that name is not followed", "")
						bad = true
					}
				}
			}
			continue
		}
		for _, b := range fn.Blocks {
			for _, in := range b.Instrs {
				switch x := in.(type) {
				case *ssa.Store:
					if x.Addr == ssa.Value(g) {
						c.addc("violated", rule, fn, x.Pos(), "write "+g.Name(), "package-level table "+g.Name()+" is reassigned at run time: the constants the rules read are no longer what the code uses", "")
						bad = true
					}
					if ia, ok := x.Addr.(*ssa.IndexAddr); ok && (globalLoad(ia.X) == g || ia.X == ssa.Value(g)) {
						c.addc("violated", rule, fn, x.Pos(), "write "+g.Name(), "element of table "+g.Name()+" is overwritten at run time", "")
						bad = true
					}
				case *ssa.MapUpdate:
					if globalLoad(x.Map) == g {
						c.addc("violated", rule, fn, x.Pos(), "write "+g.Name(), "entry of table "+g.Name()+" is written at run time", "")
						bad = true
					}
				default:
					// a map or slice table is a reference: the loaded value may be read (looked up, indexed, ranged
					// over, measured), not handed on, deleted from or cleared
					if u, ok := in.(*ssa.UnOp); ok && u.Op == token.MUL && u.X == ssa.Value(g) && u.Referrers() != nil {
						_, isMap := u.Type().Underlying().(*types.Map)
						_, isSlice := u.Type().Underlying().(*types.Slice)
						for _, r := range *u.Referrers() {
							if !isMap && !isSlice {
								break
							}
							switch y := r.(type) {
							case *ssa.Lookup, *ssa.Range, *ssa.DebugRef, *ssa.Index:
								continue
							case *ssa.IndexAddr:
								reads := true
								for _, rr := range *y.Referrers() {
									if l, ok := rr.(*ssa.UnOp); !ok || l.Op != token.MUL {
										if _, dbg := rr.(*ssa.DebugRef); !dbg {
											reads = false
										}
									}
								}
								if reads {
									continue
								}
								if st := storeThrough(y); st {
									continue // reported above as an element write
								}
							case *ssa.MapUpdate:
								if y.Map == ssa.Value(u) {
									continue // reported above
								}
							case *ssa.BinOp:
								continue // compared with nil
							case *ssa.Call:
								if bi, ok := y.Call.Value.(*ssa.Builtin); ok {
									switch bi.Name() {
									case "len", "cap":
										continue
									case "delete", "clear":
										c.addc("violated", rule, fn, y.Pos(), "write "+g.Name(), "entries of table "+g.Name()+" are removed at run time ("+bi.Name()+"): the constants the rules read are no longer what the code uses", "")
										bad = true
										continue
									}
								}
							}
							// handed to a helper of the module that only reads it (`digitText(hundreds, value, …)`)
							if call, isCall := r.(*ssa.Call); isCall {
								if callee := c.StaticCallee(&call.Call); callee != nil && inRepo(callee) && len(callee.Blocks) > 0 {
									all := true
									for ai, a := range call.Call.Args {
										if a == ssa.Value(u) && (ai >= len(callee.Params) || !readsOnlyRef(callee.Params[ai], 0)) {
											all = false
										}
									}
									if all {
										continue
									}
								}
							}
							c.addc("undecided", rule, fn, r.Pos(), "reference "+g.Name(), "the table "+g.Name()+" (a reference) is handed on ("+fmt.Sprintf("%T", r)+"): who writes through it is not followed", "")
							bad = true
						}
					}
					for _, op := range in.Operands(nil) {
						if *op == ssa.Value(g) {
							if u, ok := in.(*ssa.UnOp); ok && u.Op == token.MUL {
								continue // plain load
							}
							// an array-typed table is indexed through its address: &g[i] that is only loaded from (or
							// stored to: reported above) does not hand the table out
							if ia, ok := in.(*ssa.IndexAddr); ok && ia.X == ssa.Value(g) {
								onlyAccess := true
								for _, r := range *ia.Referrers() {
									switch y := r.(type) {
									case *ssa.UnOp:
										if y.Op != token.MUL {
											onlyAccess = false
										}
									case *ssa.Store:
										if y.Addr != ssa.Value(ia) {
											onlyAccess = false
										}
									case *ssa.DebugRef:
									default:
										onlyAccess = false
									}
								}
								if onlyAccess {
									continue
								}
							}
							c.addc("undecided", rule, fn, in.Pos(), "address "+g.Name(), "address of table "+g.Name()+" escapes (who-writes analysis not applicable)", "")
							bad = true
						}
					}
				}
			}
		}
	}
	if !bad {
		c.addc("discharged", rule, nil, g.Pos(), "const "+g.Name(), "table "+g.Pkg.Pkg.Name()+"."+g.Name()+" is written only by package initialisation", "")
		c.Out[len(c.Out)-1].Site = g.Pkg.Pkg.Name() + "." + g.Name()
	}
}

// unlockOnEveryPath: every path from the access to a return passes a (non-deferred) Unlock of mu, and no access to
// the protected state follows that Unlock on the path (checked by the caller's dominance test for each access).
func (c *Ctx) unlockOnEveryPath(fn *ssa.Function, at ssa.Instruction, mu *ssa.Global) bool {
	hasUnlockAfter := func(b *ssa.BasicBlock, from int) bool {
		for _, in := range b.Instrs[from:] {
			if _, ok := in.(*ssa.Call); ok && isMutexCall(in, mu, "Unlock") {
				return true
			}
		}
		return false
	}
	start := 0
	for i, in := range at.Block().Instrs {
		if in == at {
			start = i
		}
	}
	if hasUnlockAfter(at.Block(), start) {
		return true
	}
	seen := map[*ssa.BasicBlock]bool{}
	var rec func(b *ssa.BasicBlock) bool
	rec = func(b *ssa.BasicBlock) bool {
		if seen[b] {
			return true
		}
		seen[b] = true
		if hasUnlockAfter(b, 0) {
			return true
		}
		if len(b.Succs) == 0 {
			return false // reached an exit without unlocking
		}
		for _, s := range b.Succs {
			if !rec(s) {
				return false
			}
		}
		return true
	}
	for _, s := range at.Block().Succs {
		if !rec(s) {
			return false
		}
	}
	return len(at.Block().Succs) > 0
}

// freshClockSeed: the call is x.Seed(time.Now().Unix*()) with the clock read in place.
func freshClockSeed(call *ssa.Call) bool {
	if len(call.Call.Args) != 2 {
		return false
	}
	u, ok := call.Call.Args[1].(*ssa.Call)
	if !ok || len(u.Call.Args) != 1 {
		return false
	}
	if f := u.Call.StaticCallee(); f == nil || !strings.HasPrefix(f.String(), "(time.Time).Unix") {
		return false
	}
	n, ok := u.Call.Args[0].(*ssa.Call)
	if !ok {
		return false
	}
	f := n.Call.StaticCallee()
	return f != nil && f.String() == "time.Now"
}

// onlyMutexReceiver: the loaded mutex pointer is used only as the receiver of Lock/Unlock/TryLock calls.
func onlyMutexReceiver(ld *ssa.UnOp) bool {
	refs := ld.Referrers()
	if refs == nil {
		return false
	}
	for _, r := range *refs {
		ci, ok := r.(ssa.CallInstruction)
		if !ok {
			return false
		}
		cc := ci.Common()
		f := cc.StaticCallee()
		if f == nil || !strings.HasPrefix(f.String(), "(*sync.Mutex).") || len(cc.Args) != 1 || cc.Args[0] != ssa.Value(ld) {
			return false
		}
	}
	return true
}

// storeThrough: the element address is the target of a store.
func storeThrough(ia *ssa.IndexAddr) bool {
	for _, r := range *ia.Referrers() {
		if st, ok := r.(*ssa.Store); ok && st.Addr == ssa.Value(ia) {
			return true
		}
	}
	return false
}

// readsOnlyRef: the map or slice v is only looked up, indexed for reading, ranged over, measured or compared.
func readsOnlyRef(v ssa.Value, depth int) bool {
	if v.Referrers() == nil {
		return true
	}
	for _, r := range *v.Referrers() {
		switch y := r.(type) {
		case *ssa.Lookup, *ssa.Range, *ssa.DebugRef, *ssa.Index, *ssa.BinOp:
		case *ssa.IndexAddr:
			for _, rr := range *y.Referrers() {
				if l, ok := rr.(*ssa.UnOp); !ok || l.Op != token.MUL {
					if _, dbg := rr.(*ssa.DebugRef); !dbg {
						return false
					}
				}
			}
		case *ssa.Call:
			bi, ok := y.Call.Value.(*ssa.Builtin)
			if !ok || (bi.Name() != "len" && bi.Name() != "cap") {
				return false
			}
		case *ssa.Phi:
			if depth > 3 || !readsOnlyRef(y, depth+1) {
				return false
			}
		default:
			return false
		}
	}
	return true
}
