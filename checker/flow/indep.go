package flow

import (
	"go/token"
	"go/types"

	"golang.org/x/tools/go/ssa"
)

// RuleBufIndependent (C16.indep): the bytes a formatter appends are a function of (value, flags) only.
// No element of the caller's existing buffer may be read (load, range, copy source, conversion to string,
// stdlib reader), and len/cap of the buffer parameter may be used only as a slicing bound.
func (c *Ctx) RuleBufIndependent(fns ...*ssa.Function) {
	for _, fn := range fns {
		before := len(c.Out)
		c.bufReads("C16.indep", fn, 0, rPrefix, 0)
		if len(c.Out) == before {
			c.add("discharged", "C16.indep", fn, fn.Pos(), "no read of the caller's existing bytes; len(buf) used only as a slicing bound")
		}
	}
}

func (c *Ctx) bufReads(rule string, fn *ssa.Function, pi int, regionIn region, depth int) {
	if depth > 4 {
		c.add("undecided", rule, fn, fn.Pos(), "inlining depth")
		return
	}
	reg := c.bufRegions(fn, pi, regionIn, depth)
	param := fn.Params[pi]
	for _, b := range fn.Blocks {
		for _, in := range b.Instrs {
			switch x := in.(type) {
			case *ssa.UnOp:
				if x.Op != token.MUL {
					continue
				}
				if ia, ok := x.X.(*ssa.IndexAddr); ok && reg[ia.X] == rPrefix {
					c.add("violated", rule, fn, x.Pos(), "reads an element through a slice that includes the caller's existing bytes: output may depend on the prefix")
				}
			case *ssa.Index:
				if reg[x.X] == rPrefix {
					c.add("violated", rule, fn, x.Pos(), "reads an element of the caller's buffer")
				}
			case *ssa.Range:
				if reg[x.X] == rPrefix {
					c.add("violated", rule, fn, x.Pos(), "ranges over the caller's buffer")
				}
			case *ssa.Convert:
				if reg[x.X] == rPrefix {
					if _, isStr := x.Type().Underlying().(*types.Basic); isStr {
						c.add("violated", rule, fn, x.Pos(), "converts the caller's bytes to a string")
					}
				}
			case *ssa.Call:
				cc := &x.Call
				if bi, ok := cc.Value.(*ssa.Builtin); ok {
					switch bi.Name() {
					case "copy":
						if reg[cc.Args[1]] == rPrefix {
							c.add("violated", rule, fn, x.Pos(), "copies out of the caller's existing bytes")
						}
					case "len", "cap":
						if cc.Args[0] == ssa.Value(param) && regionIn == rPrefix {
							for _, r := range *x.Referrers() {
								switch u := r.(type) {
								case *ssa.DebugRef:
								case *ssa.Slice:
									if u.Low != ssa.Value(x) && u.High != ssa.Value(x) && u.Max != ssa.Value(x) {
										c.add("violated", rule, fn, r.Pos(), bi.Name()+"(buf) used other than as a slicing bound")
									}
								default:
									c.add("violated", rule, fn, r.Pos(), bi.Name()+"(buf) influences the output (used other than as a slicing bound)")
								}
							}
						}
					}
					continue
				}
				callee := c.StaticCallee(cc) // a function variable assigned once resolves to its function (as under C16.append)
				if callee == nil {
					for _, a := range cc.Args {
						if reg[a] == rPrefix || reg[a] == rBuffer {
							c.add("undecided", rule, fn, x.Pos(), "the caller's bytes are handed to a dynamic callee: what it reads of them is not followed")
						}
					}
					continue
				}
				name := origin(callee).String()
				for ai, a := range cc.Args {
					if reg[a] != rPrefix && reg[a] != rBuffer {
						continue
					}
					switch {
					case name == "bytes.NewBuffer" || name == "(*bytes.Buffer).Bytes" || appendOnly[name]:
						if ai != 0 {
							c.add("violated", rule, fn, x.Pos(), "caller's bytes passed as data operand of "+name)
						}
					case inRepo(callee):
						// the caller's bytes, or a bytes.Buffer that wraps them, in a function of the module: what it
						// reads of them is read here
						if g := origin(callee); ai < len(g.Params) {
							c.bufReads(rule, g, ai, reg[a], depth+1)
						}
					case name == "(*bytes.Buffer).Grow":
					case name == "(*bytes.Buffer).Len" || name == "(*bytes.Buffer).Cap":
						for _, r := range *x.Referrers() {
							if u, ok := r.(*ssa.Slice); ok && (u.Low == ssa.Value(x) || u.High == ssa.Value(x)) {
								continue
							}
							if _, ok := r.(*ssa.DebugRef); ok {
								continue
							}
							c.add("violated", rule, fn, r.Pos(), name+" of a buffer that wraps the caller's bytes influences the output")
						}
					default:
						c.add("violated", rule, fn, x.Pos(), "caller's bytes passed to "+name+", which reads them")
					}
				}
			}
		}
	}
}
