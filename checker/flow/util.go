// Package flow: prototype path/shape rules over go/ssa.
package flow

import (
	"fmt"
	"go/constant"
	"go/token"
	"go/types"
	"sort"
	"strings"

	"golang.org/x/tools/go/ssa"
)

type Finding struct {
	Rule, Site, Msg string
	Construct       string
	Witness         string
	Pos             token.Position
	Kind            string // violated | undecided | discharged
}

func (f Finding) String() string {
	return fmt.Sprintf("%-10s %-12s %s — %s (%s:%d)", f.Kind, f.Rule, f.Site, f.Msg, shortFile(f.Pos.Filename), f.Pos.Line)
}

func shortFile(s string) string { return s[strings.LastIndex(s[:strings.LastIndex(s, "/")], "/")+1:] }

type Ctx struct {
	Prog *ssa.Program
	Out  []Finding
	// ModPath is the import-path prefix of the module under analysis.
	ModPath  string
	allFuncs map[*ssa.Function]bool
	// who-writes cache for package-level variables (loops.go)
	constGlobals   map[*ssa.Global]bool
	writtenGlobals map[*ssa.Global]bool
}

// Drain returns and clears the findings collected so far.
func (c *Ctx) Drain() []Finding {
	o := c.Out
	c.Out = nil
	return o
}

// addc is add with an explicit construct (stable identification inside the function) and witness.
func (c *Ctx) addc(kind, rule string, fn *ssa.Function, pos token.Pos, construct, msg, witness string) {
	c.add(kind, rule, fn, pos, msg)
	c.Out[len(c.Out)-1].Construct = construct
	c.Out[len(c.Out)-1].Witness = witness
}

func (c *Ctx) add(kind, rule string, fn *ssa.Function, pos token.Pos, msg string) {
	if pos == token.NoPos && fn != nil {
		pos = fn.Pos()
	}
	c.Out = append(c.Out, Finding{Rule: rule, Site: FnName(fn), Msg: msg, Pos: c.Prog.Fset.Position(pos), Kind: kind})
}

func FnName(fn *ssa.Function) string {
	if fn == nil {
		return "?"
	}
	if o := fn.Origin(); o != nil {
		fn = o
	}
	s := fn.String()
	return strings.ReplaceAll(s, "go.lstv.dev/util/", "")
}

func origin(fn *ssa.Function) *ssa.Function {
	if o := fn.Origin(); o != nil {
		return o
	}
	return fn
}

func inRepo(fn *ssa.Function) bool {
	fn = origin(fn)
	return fn.Pkg != nil && strings.HasPrefix(fn.Pkg.Pkg.Path(), "go.lstv.dev/util") && len(fn.Blocks) > 0
}

// StaticCallee resolves a call to a function, looking through instantiation wrappers and
// package-level function variables with a single initialising store.
func (c *Ctx) StaticCallee(call *ssa.CallCommon) *ssa.Function {
	if f := call.StaticCallee(); f != nil {
		return origin(f)
	}
	// load of a global func var
	if u, ok := call.Value.(*ssa.UnOp); ok && u.Op == token.MUL {
		if g, ok := u.X.(*ssa.Global); ok {
			if f := c.GlobalFuncInit(g); f != nil {
				return origin(f)
			}
		}
	}
	return nil
}

// GlobalFuncInit returns the function stored to g in package init, if it is the only store in the program.
func (c *Ctx) GlobalFuncInit(g *ssa.Global) *ssa.Function {
	var found *ssa.Function
	n := 0
	for fn := range c.AllRepoFuncs() {
		for _, b := range fn.Blocks {
			for _, in := range b.Instrs {
				if st, ok := in.(*ssa.Store); ok && st.Addr == g {
					n++
					if f, ok := st.Val.(*ssa.Function); ok {
						found = f
					}
				}
			}
		}
	}
	if n == 1 {
		return found
	}
	return nil
}

func (c *Ctx) AllRepoFuncs() map[*ssa.Function]bool {
	if c.allFuncs != nil {
		return c.allFuncs
	}
	res := map[*ssa.Function]bool{}
	var visit func(fn *ssa.Function)
	visit = func(fn *ssa.Function) {
		if fn == nil || res[fn] || !inRepo(fn) {
			return
		}
		res[fn] = true
		for _, a := range fn.AnonFuncs {
			visit(a)
		}
	}
	for _, pkg := range c.Prog.AllPackages() {
		if !strings.HasPrefix(pkg.Pkg.Path(), "go.lstv.dev/util") {
			continue
		}
		for _, m := range pkg.Members {
			switch m := m.(type) {
			case *ssa.Function:
				visit(m)
			case *ssa.Type:
				// generic methods have no MethodValue: take the generic bodies through the method objects
				if named, ok := m.Type().(*types.Named); ok {
					for i := 0; i < named.NumMethods(); i++ {
						if f := c.Prog.FuncValue(named.Method(i)); f != nil {
							visit(origin(f))
						}
					}
				}
				for _, t := range []types.Type{m.Type(), types.NewPointer(m.Type())} {
					ms := c.Prog.MethodSets.MethodSet(t)
					for i := 0; i < ms.Len(); i++ {
						if f := c.Prog.MethodValue(ms.At(i)); f != nil {
							visit(origin(f))
						}
					}
				}
			}
		}
	}
	c.allFuncs = res
	return res
}

func SortedFuncs(m map[*ssa.Function]bool) []*ssa.Function {
	var fs []*ssa.Function
	for f := range m {
		fs = append(fs, f)
	}
	sort.Slice(fs, func(i, j int) bool { return fs[i].String() < fs[j].String() })
	return fs
}

// Reachable computes in-repo functions reachable from roots via static calls and resolved func vars.
func (c *Ctx) Reachable(roots ...*ssa.Function) map[*ssa.Function]bool {
	res := map[*ssa.Function]bool{}
	var visit func(fn *ssa.Function)
	visit = func(fn *ssa.Function) {
		if fn == nil {
			return
		}
		fn = origin(fn)
		if res[fn] || !inRepo(fn) {
			return
		}
		res[fn] = true
		for _, b := range fn.Blocks {
			for _, in := range b.Instrs {
				if call, ok := in.(ssa.CallInstruction); ok {
					visit(c.StaticCallee(call.Common()))
				}
			}
		}
		for _, a := range fn.AnonFuncs {
			visit(a)
		}
	}
	for _, r := range roots {
		visit(r)
	}
	return res
}

func isNilConst(v ssa.Value) bool {
	c, ok := v.(*ssa.Const)
	return ok && c.Value == nil
}

func constInt(v ssa.Value) (int64, bool) {
	c, ok := v.(*ssa.Const)
	if !ok || c.Value == nil || c.Value.Kind() != constant.Int {
		return 0, false
	}
	i, ok := constant.Int64Val(c.Value)
	return i, ok
}

func constString(v ssa.Value) (string, bool) {
	c, ok := v.(*ssa.Const)
	if !ok || c.Value == nil || c.Value.Kind() != constant.String {
		return "", false
	}
	return constant.StringVal(c.Value), true
}

func isErrorType(t types.Type) bool {
	return types.Identical(t, types.Universe.Lookup("error").Type())
}

// reach reports blocks reachable from b (excluding b unless on a cycle).
func reachFrom(b *ssa.BasicBlock) map[*ssa.BasicBlock]bool {
	seen := map[*ssa.BasicBlock]bool{}
	var w []*ssa.BasicBlock
	w = append(w, b.Succs...)
	for len(w) > 0 {
		x := w[len(w)-1]
		w = w[:len(w)-1]
		if seen[x] {
			continue
		}
		seen[x] = true
		w = append(w, x.Succs...)
	}
	return seen
}

// strip looks through value-preserving wrappers.
func strip(v ssa.Value) ssa.Value {
	for {
		switch x := v.(type) {
		case *ssa.ChangeType:
			v = x.X
		case *ssa.Convert:
			if narrowingConv(x) {
				return v
			}
			v = x.X
		case *ssa.MultiConvert:
			v = x.X
		case *ssa.ChangeInterface:
			v = x.X
		case *ssa.MakeInterface:
			v = x.X
		default:
			return v
		}
	}
}

// globalLoad returns the global if v is a load of a package-level variable.
func globalLoad(v ssa.Value) *ssa.Global {
	if u, ok := v.(*ssa.UnOp); ok && u.Op == token.MUL {
		if g, ok := u.X.(*ssa.Global); ok {
			return g
		}
	}
	return nil
}

// varargs recovers the element values of a variadic []any argument built in-line.
func varargs(v ssa.Value) []ssa.Value {
	sl, ok := v.(*ssa.Slice)
	if !ok {
		return nil
	}
	alloc, ok := sl.X.(*ssa.Alloc)
	if !ok {
		return nil
	}
	at, ok := alloc.Type().Underlying().(*types.Pointer).Elem().Underlying().(*types.Array)
	if !ok {
		return nil
	}
	out := make([]ssa.Value, at.Len())
	for _, ref := range *alloc.Referrers() {
		ia, ok := ref.(*ssa.IndexAddr)
		if !ok {
			continue
		}
		idx, ok := constInt(ia.Index)
		if !ok {
			continue
		}
		for _, r2 := range *ia.Referrers() {
			if st, ok := r2.(*ssa.Store); ok && st.Addr == ia {
				out[idx] = st.Val
			}
		}
	}
	return out
}
