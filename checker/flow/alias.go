package flow

import (
	"fmt"
	"go/token"
	"go/types"

	"golang.org/x/tools/go/ssa"
)

// Region of a slice value relative to the caller's buffer parameter.
type region int

const (
	rNone   region = iota
	rSuffix        // starts at >= len(buf): only bytes the formatter itself appended
	rPrefix        // may include the caller's existing bytes
	rBuffer        // *bytes.Buffer wrapping a prefix-inclusive slice
)

// summaries of stdlib callees: how they treat a []byte / *bytes.Buffer argument at index 0.
var appendOnly = map[string]bool{
	"strconv.AppendUint": true, "strconv.AppendInt": true, "strconv.AppendQuote": true, "strconv.AppendBool": true, "strconv.AppendFloat": true,
	"fmt.Appendf": true, "fmt.Append": true, "fmt.Appendln": true, "unicode/utf8.AppendRune": true, "encoding/hex.AppendEncode": true,
	"(*bytes.Buffer).WriteByte": true, "(*bytes.Buffer).WriteString": true, "(*bytes.Buffer).Write": true, "(*bytes.Buffer).WriteRune": true,
	"fmt.Fprintf": true, "fmt.Fprint": true,
}
var readOnly = map[string]bool{
	"(*regexp.Regexp).FindSubmatch": true, "(*regexp.Regexp).Match": true, "(*regexp.Regexp).MatchString": true, "(*regexp.Regexp).FindStringSubmatch": true,
	"bytes.NewReader": true, "strconv.Atoi": true, "strconv.ParseUint": true, "strings.ToLower": true, "strings.TrimLeft": true,
	"strings.TrimSuffix": true, "strings.Compare": true, "(*strings.Builder).WriteRune": true, "(*strings.Builder).String": true, "(*strings.Builder).Len": true,
	"fmt.Errorf": true, "fmt.Sprintf": true,
	"encoding/json.Valid": true, "encoding/json.Unmarshal": true, "encoding/json.NewDecoder": true,
	"bytes.Equal": true, "bytes.EqualFold": true, "bytes.HasPrefix": true, "bytes.HasSuffix": true, "bytes.Index": true, "bytes.IndexByte": true,
	"bytes.IndexAny": true, "bytes.IndexRune": true, "bytes.LastIndex": true, "bytes.LastIndexByte": true, "bytes.Contains": true, "bytes.ContainsAny": true,
	"bytes.ContainsRune": true, "bytes.Count": true, "bytes.Compare": true, "bytes.ToUpper": true, "bytes.ToLower": true,
	"bytes.NewBufferString": true, "unicode/utf8.Valid": true, "unicode/utf8.DecodeRune": true, "unicode/utf8.DecodeLastRune": true, "unicode/utf8.RuneCount": true,
	"strconv.ParseInt": true, "strconv.ParseFloat": true, "strconv.ParseBool": true, "strconv.Quote": true, "strconv.Unquote": true,
	"(*regexp.Regexp).FindSubmatchIndex": true, "(*regexp.Regexp).FindIndex": true, "(*regexp.Regexp).Find": true, "(*regexp.Regexp).FindAllSubmatch": true,
	"strings.TrimRight": true, "strings.TrimSpace": true, "strings.TrimPrefix": true, "strings.Trim": true, "strings.EqualFold": true, "strings.HasPrefix": true, "strings.HasSuffix": true,
	"errors.New": true,
	// the byte-order readers (the writers PutUintN are not read-only)
	"(encoding/binary.bigEndian).Uint16": true, "(encoding/binary.bigEndian).Uint32": true, "(encoding/binary.bigEndian).Uint64": true,
	"(encoding/binary.littleEndian).Uint16": true, "(encoding/binary.littleEndian).Uint32": true, "(encoding/binary.littleEndian).Uint64": true,
}

// aliasReturning lists read-only stdlib functions whose []byte result aliases their first argument.
var aliasReturning = map[string]bool{
	"bytes.TrimSpace": true, "bytes.Trim": true, "bytes.TrimLeft": true, "bytes.TrimRight": true, "bytes.TrimPrefix": true, "bytes.TrimSuffix": true,
	"bytes.TrimFunc": true, "bytes.TrimLeftFunc": true, "bytes.TrimRightFunc": true,
}

// analyseBuf checks the append-only discipline of fn with respect to parameter index pi (a []byte).
// regionIn is the region of that parameter at entry (rPrefix for DefaultFormatter's buf).
// Returns whether fn may write elements of the parameter region, and the region of each result derived from it.
func (c *Ctx) analyseBuf(rule string, fn *ssa.Function, pi int, regionIn region, depth int) (writes bool, retRegion region) {
	if depth > 4 {
		c.add("undecided", rule, fn, fn.Pos(), "inlining depth")
		return true, rPrefix
	}
	reg := c.bufRegions(fn, pi, regionIn, depth)
	// shadow append chains: a slice of the caller's spare capacity (buf[len(buf):]) used as the destination of an
	// append while buf itself is appended to as well — the two chains share memory and overwrite each other
	if regionIn == rPrefix {
		var shadow, direct ssa.Instruction
		for _, b := range fn.Blocks {
			for _, in := range b.Instrs {
				call, ok := in.(*ssa.Call)
				if !ok || len(call.Call.Args) == 0 {
					continue
				}
				appendLike := false
				if bi, ok := call.Call.Value.(*ssa.Builtin); ok && bi.Name() == "append" {
					appendLike = true
				} else if f := call.Call.StaticCallee(); f != nil && appendOnly[origin(f).String()] {
					appendLike = true
				}
				dst := call.Call.Args[0]
				if f := c.StaticCallee(&call.Call); !appendLike && f != nil && inRepo(f) && reg[call] != rNone {
					// an appending helper of the module handed the spare capacity (appendDigits(buf[len(buf):], v))
					for _, a := range call.Call.Args {
						if reg[a] != rNone {
							dst, appendLike = a, true
						}
					}
				}
				if !appendLike {
					continue
				}
				switch reg[dst] {
				case rSuffix:
					// the spare-capacity slice itself, or what a chain started on it has grown into (the scratch slice
					// appended to in a loop is a phi of that slice and the appends' results)
					var fromSpare func(v ssa.Value, depth int) bool
					fromSpare = func(v ssa.Value, depth int) bool {
						if depth > 6 {
							return false
						}
						switch x := v.(type) {
						case *ssa.Slice:
							return x.X == ssa.Value(fn.Params[pi])
						case *ssa.Phi:
							for _, ed := range x.Edges {
								if ed != v && fromSpare(ed, depth+1) {
									return true
								}
							}
						case *ssa.Call:
							if bi, ok := x.Call.Value.(*ssa.Builtin); ok && bi.Name() == "append" {
								return fromSpare(x.Call.Args[0], depth+1)
							}
						}
						return false
					}
					if fromSpare(dst, 0) {
						shadow = in
					}
				case rPrefix, rBuffer:
					direct = in
				}
			}
		}
		if shadow != nil && direct != nil {
			c.add("violated", rule, fn, shadow.Pos(), "a second append chain is started in the caller's spare capacity (buf[len(buf):]) while buf itself is appended to: the two chains share memory and overwrite each other when the capacity suffices")
		}
	}
	// forked append chains: one buffer-derived slice value is the destination of two different appends that can both
	// execute on one path, and the result of the earlier one is still used after the later one has run — both write the
	// same spare capacity, so the later append overwrites what the earlier result is read from
	c.forkedAppends(rule, fn, reg)
	// effects
	for _, b := range fn.Blocks {
		for _, in := range b.Instrs {
			switch x := in.(type) {
			case *ssa.Store:
				if ia, ok := x.Addr.(*ssa.IndexAddr); ok {
					switch reg[ia.X] {
					case rPrefix:
						writes = true
						c.add("violated", rule, fn, x.Pos(), "element store through a slice that includes the caller's existing bytes")
					case rSuffix:
						// own output only
					}
				}
				if reg[x.Val] != rNone {
					if g := rootGlobal(x.Addr); g != nil {
						c.add("violated", rule, fn, x.Pos(), "a slice of the caller's buffer is retained in package-level "+g.Name()+" beyond the call: later calls read or overwrite memory the caller owns")
					}
				}
			case *ssa.Slice:
				if reg[x.X] == rPrefix && x.High != nil && regionIn == rPrefix && !(isLenOfBuf(x.High, fn.Params[pi]) && x.X == ssa.Value(fn.Params[pi])) { // buf[:len(buf)] keeps every byte
					c.add("violated", rule, fn, x.Pos(), "truncating re-slice of the caller's buffer")
				}
			case *ssa.Call:
				cc := &x.Call
				if b, ok := cc.Value.(*ssa.Builtin); ok {
					if b.Name() == "copy" && reg[cc.Args[0]] == rPrefix {
						writes = true
						c.add("violated", rule, fn, x.Pos(), "copy into a slice that includes the caller's existing bytes")
					}
					continue
				}
				callee := cc.StaticCallee()
				viaVar := false
				if callee == nil {
					callee = c.StaticCallee(cc) // a package-level function variable assigned once (Formatter = DefaultFormatter)
					viaVar = callee != nil
				}
				if callee == nil {
					for _, a := range cc.Args {
						if reg[a] != rNone {
							c.add("undecided", rule, fn, x.Pos(), "buffer passed to dynamic callee")
						}
					}
					continue
				}
				// a replaceable formatter may fail, and what it hands back beside its error need not be the caller's
				// buffer (the library's own fallbacks exist for that case): on the path where its error is non-nil its
				// bytes are not used as the base of anything
				if viaVar {
					carries := false
					for _, a := range cc.Args {
						if reg[a] != rNone {
							carries = true
						}
					}
					var res, errv ssa.Value
					if carries && x.Referrers() != nil {
						for _, r := range *x.Referrers() {
							if ex, ok := r.(*ssa.Extract); ok {
								if isErrorType(ex.Type()) {
									errv = ex
								} else if ex.Index == 0 {
									res = ex
								}
							}
						}
					}
					if res != nil && errv != nil && res.Referrers() != nil {
						for _, blk := range fn.Blocks {
							iff, ok := blk.Instrs[len(blk.Instrs)-1].(*ssa.If)
							if !ok {
								continue
							}
							cmp, ok := iff.Cond.(*ssa.BinOp)
							if !ok || (cmp.Op != token.NEQ && cmp.Op != token.EQL) || cmp.X != errv || !isNilConst(cmp.Y) {
								continue
							}
							errSide := blk.Succs[map[bool]int{true: 0, false: 1}[cmp.Op == token.NEQ]]
							if len(errSide.Preds) != 1 {
								continue
							}
							for _, r := range *res.Referrers() {
								if _, isDbg := r.(*ssa.DebugRef); isDbg || r.Block() == nil {
									continue
								}
								if errSide == r.Block() || errSide.Dominates(r.Block()) {
									writes = writes || false
									c.add("violated", rule, fn, r.Pos(), "after the replaceable "+calleeVarName(cc.Value)+" has failed, the bytes it handed back are used as the buffer to go on with: a formatter that returns nil beside its error loses the caller's bytes")
								}
							}
						}
					}
				}
				name := origin(callee).String()
				for ai, a := range cc.Args {
					r := reg[a]
					if r == rNone {
						continue
					}
					switch {
					case name == "bytes.NewBuffer" || name == "(*bytes.Buffer).Bytes" || appendOnly[name] || readOnly[name]:
					case name == "(*bytes.Buffer).Len" || name == "(*bytes.Buffer).Cap" || name == "(*bytes.Buffer).Grow" || name == "(*bytes.Buffer).Available":
						// neither writes nor exposes the caller's bytes (what Len() may be used for is C16.indep's business)
					case inRepo(callee):
						w, _ := c.analyseBuf(rule, origin(callee), ai, r, depth+1)
						if w && r == rPrefix {
							writes = true
							c.add("violated", rule, fn, x.Pos(), fmt.Sprintf("passes a prefix-inclusive slice to %s, which stores into its elements", FnName(callee)))
						}
					default:
						c.add("undecided", rule, fn, x.Pos(), "buffer passed to "+name+" (no summary)")
					}
				}
			case *ssa.Return:
				// a failure return (nil bytes with a non-nil error) formats nothing
				if n := len(x.Results); n >= 2 && isErrorType(x.Results[n-1].Type()) && !isNilConst(x.Results[n-1]) && isNilConst(x.Results[0]) {
					continue
				}
				for _, r := range x.Results {
					if _, isSlice := r.Type().Underlying().(*types.Slice); isSlice {
						if reg[r] > retRegion {
							retRegion = reg[r]
						}
						if regionIn == rPrefix && depth == 0 && reg[r] != rPrefix {
							c.add("violated", rule, fn, x.Pos(), "returned slice is not derived from buf by append-only operations (caller's bytes lost)")
						} else if regionIn == rPrefix && depth == 0 && !c.mustDerive(r, fn.Params[pi], 0, map[ssa.Value]bool{}) {
							// the regions say "may hold the caller's bytes" (a union over the paths of every function on the
							// way); on some path through a function of the module the result is built from something else
							c.add("violated", rule, fn, x.Pos(), "on some path through the functions it calls the returned slice is not built on buf (caller's bytes lost)")
						} else if regionIn == rPrefix && depth == 0 && dropsLeading(r, 0) {
							c.add("violated", rule, fn, x.Pos(), "the returned slice starts behind the beginning of the caller's buffer (x[k:] with k > 0): the caller's leading bytes are lost")
						}
					}
				}
			}
		}
	}
	// callee-level: does it store into param elements at all (for rSuffix callers this is fine)
	if regionIn != rPrefix {
		for _, b := range fn.Blocks {
			for _, in := range b.Instrs {
				if st, ok := in.(*ssa.Store); ok {
					if ia, ok := st.Addr.(*ssa.IndexAddr); ok && reg[ia.X] != rNone {
						writes = true
					}
				}
			}
		}
	}
	return writes, retRegion
}

// forkedAppends: see the call site in analyseBuf.
func (c *Ctx) forkedAppends(rule string, fn *ssa.Function, reg map[ssa.Value]region) {
	byDst := map[ssa.Value][]*ssa.Call{}
	for _, b := range fn.Blocks {
		for _, in := range b.Instrs {
			call, ok := in.(*ssa.Call)
			if !ok || len(call.Call.Args) == 0 {
				continue
			}
			appendLike := false
			if bi, ok := call.Call.Value.(*ssa.Builtin); ok && bi.Name() == "append" {
				appendLike = true
			} else if f := call.Call.StaticCallee(); f != nil && appendOnly[origin(f).String()] {
				if _, isSlice := call.Type().Underlying().(*types.Slice); isSlice {
					appendLike = true
				}
			}
			if dst := call.Call.Args[0]; appendLike && reg[dst] != rNone && reg[dst] != rBuffer {
				byDst[dst] = append(byDst[dst], call)
			}
			// an appending helper of the module (its result is built on the slice it was handed): a chain member too
			resReg := reg[call]
			if _, isTuple := call.Type().(*types.Tuple); isTuple && call.Referrers() != nil {
				for _, r := range *call.Referrers() {
					if ex, ok := r.(*ssa.Extract); ok && ex.Index == 0 && reg[ex] != rNone {
						resReg = reg[ex]
					}
				}
			}
			if f := c.StaticCallee(&call.Call); !appendLike && f != nil && inRepo(f) && resReg != rNone && resReg != rBuffer {
				_, isSlice := call.Type().Underlying().(*types.Slice)
				if tp, ok := call.Type().(*types.Tuple); ok && tp.Len() > 0 { // ([]byte, error): the formatters
					_, isSlice = tp.At(0).Type().Underlying().(*types.Slice)
				}
				if isSlice {
					for _, a := range call.Call.Args {
						if reg[a] != rNone && reg[a] != rBuffer {
							byDst[a] = append(byDst[a], call)
						}
					}
				}
			}
		}
	}
	// after(a, b): instruction b can execute after instruction a on some path
	reach := map[*ssa.BasicBlock]map[*ssa.BasicBlock]bool{}
	reachable := func(from *ssa.BasicBlock) map[*ssa.BasicBlock]bool {
		if r, ok := reach[from]; ok {
			return r
		}
		r := map[*ssa.BasicBlock]bool{}
		work := append([]*ssa.BasicBlock{}, from.Succs...)
		for len(work) > 0 {
			b := work[len(work)-1]
			work = work[:len(work)-1]
			if r[b] {
				continue
			}
			r[b] = true
			work = append(work, b.Succs...)
		}
		reach[from] = r
		return r
	}
	idx := func(in ssa.Instruction) int {
		for i, x := range in.Block().Instrs {
			if x == in {
				return i
			}
		}
		return -1
	}
	after := func(a, b ssa.Instruction) bool {
		if a.Block() == b.Block() && idx(b) > idx(a) {
			return true
		}
		return reachable(a.Block())[b.Block()]
	}
	// afterSame(a, b, v): b can execute after a while v still holds the same dynamic value, i.e. on a path that does not
	// enter the block defining v again (a loop-carried phi is a new slice on every iteration)
	afterSame := func(a, b ssa.Instruction, v ssa.Value) bool {
		if a.Block() == b.Block() && idx(b) > idx(a) {
			return true
		}
		var def *ssa.BasicBlock
		if in, ok := v.(ssa.Instruction); ok {
			def = in.Block()
		}
		seen := map[*ssa.BasicBlock]bool{}
		work := append([]*ssa.BasicBlock{}, a.Block().Succs...)
		for len(work) > 0 {
			bl := work[len(work)-1]
			work = work[:len(work)-1]
			if seen[bl] || bl == def {
				continue
			}
			seen[bl] = true
			work = append(work, bl.Succs...)
		}
		return seen[b.Block()]
	}
	for dst, calls := range byDst {
		for _, a1 := range calls {
			for _, a2 := range calls {
				if a1 == a2 || !afterSame(a1, a2, dst) {
					continue
				}
				// values derived from a1's result without copying: appends, re-slices, phis
				derived := map[ssa.Value]bool{a1: true}
				for changed := true; changed; {
					changed = false
					for v := range derived {
						for _, u := range *v.Referrers() {
							var d ssa.Value
							switch x := u.(type) {
							case *ssa.Slice:
								if x.X == v {
									d = x
								}
							case *ssa.Phi:
								// the merge carries a1's result past a2 only if it enters on an edge a2 may have run before
								// (`out, err := F(b); if err != nil { out, _ = G(b) }; return out`: where G ran, the merge
								// takes G's result)
								for i, ed := range x.Edges {
									if ed == v && i < len(x.Block().Preds) {
										if pb := x.Block().Preds[i]; pb == a2.Block() || reachable(a2.Block())[pb] {
											d = x
										}
									}
								}
								// … or the merge happens before a2 runs and its value is what is read afterwards
								if x.Block() == a2.Block() || reachable(x.Block())[a2.Block()] {
									d = x
								}
							case *ssa.Extract:
								if _, isSlice := x.Type().Underlying().(*types.Slice); isSlice && x.Index == 0 {
									d = x
								}
							case *ssa.Call:
								if len(x.Call.Args) > 0 && x.Call.Args[0] == v && reg[x] != rNone {
									d = x
								}
							}
							if d != nil && !derived[d] && d != ssa.Value(a2) && d != dst {
								derived[d] = true
								changed = true
							}
						}
					}
				}
				for v := range derived {
					for _, u := range *v.Referrers() {
						if u == ssa.Instruction(a2) || !after(a2, u) {
							continue
						}
						if _, isDbg := u.(*ssa.DebugRef); isDbg {
							continue
						}
						if ph, isPhi := u.(*ssa.Phi); isPhi {
							// a merge reads v only on the edges it enters by
							reads := false
							for i, ed := range ph.Edges {
								if ed == v && i < len(ph.Block().Preds) {
									if pb := ph.Block().Preds[i]; pb == a2.Block() || reachable(a2.Block())[pb] {
										reads = true
									}
								}
							}
							if !reads {
								continue
							}
						}
						c.add("violated", rule, fn, a2.Pos(), fmt.Sprintf("two append chains fork from one slice of the caller's buffer: the append at line %d and this one write the same spare capacity, and the earlier result is still used afterwards (line %d) — with enough capacity the later append overwrites it", c.Prog.Fset.Position(a1.Pos()).Line, c.Prog.Fset.Position(u.Pos()).Line))
						goto next
					}
				}
			next:
			}
		}
	}
}

// bufRegions computes, for every value of fn that may alias parameter pi (a []byte), which region of the
// caller's buffer it can cover.
func (c *Ctx) bufRegions(fn *ssa.Function, pi int, regionIn region, depth int) map[ssa.Value]region {
	reg := map[ssa.Value]region{fn.Params[pi]: regionIn}
	bufParam := fn.Params[pi]
	isLenOfParam := func(v ssa.Value) bool {
		return isLenOfBuf(v, bufParam)
	}
	changed := true
	set := func(v ssa.Value, r region) {
		if r > reg[v] {
			reg[v] = r
			changed = true
		}
	}
	for iter := 0; changed && iter < 20; iter++ {
		changed = false
		for _, b := range fn.Blocks {
			for _, in := range b.Instrs {
				switch x := in.(type) {
				case *ssa.Phi:
					for _, e := range x.Edges {
						set(x, reg[e])
					}
				case *ssa.Slice:
					r := reg[x.X]
					if r == rNone {
						continue
					}
					if r == rPrefix && x.Low != nil && regionIn == rPrefix && isLenOfParam(x.Low) {
						set(x, rSuffix)
					} else {
						set(x, r)
					}
				case *ssa.Call:
					cc := &x.Call
					if b, ok := cc.Value.(*ssa.Builtin); ok {
						if b.Name() == "append" && reg[cc.Args[0]] != rNone {
							set(x, reg[cc.Args[0]])
						}
						continue
					}
					callee := cc.StaticCallee()
					if callee == nil {
						callee = c.StaticCallee(cc)
					}
					if callee == nil {
						continue
					}
					name := origin(callee).String()
					switch {
					case name == "bytes.NewBuffer" && reg[cc.Args[0]] != rNone:
						set(x, rBuffer)
					case name == "(*bytes.Buffer).Bytes" && reg[cc.Args[0]] == rBuffer:
						set(x, rPrefix)
					case appendOnly[name] && len(cc.Args) > 0 && reg[cc.Args[0]] != rNone:
						if _, isSlice := x.Type().Underlying().(*types.Slice); isSlice {
							set(x, reg[cc.Args[0]])
						}
					case inRepo(callee):
						for ai, a := range cc.Args {
							if reg[a] == rNone {
								continue
							}
							_, rr := c.analyseBufQuiet(origin(callee), ai, reg[a], depth+1)
							isSlice := false
							switch t := x.Type().Underlying().(type) {
							case *types.Slice:
								isSlice = true
							case *types.Tuple: // (bytes, error): the Extract of result 0 takes the call's region
								if t.Len() > 0 {
									_, isSlice = t.At(0).Type().Underlying().(*types.Slice)
								}
							}
							if isSlice && rr != rNone {
								set(x, rr)
							}
						}
					}
				case *ssa.Extract:
					if call, ok := x.Tuple.(*ssa.Call); ok && x.Index == 0 {
						set(x, reg[call])
					}
				case *ssa.ChangeType:
					set(x, reg[x.X])
				}
			}
		}
	}
	return reg
}

// analyseBufQuiet computes the return region without reporting.
func (c *Ctx) analyseBufQuiet(fn *ssa.Function, pi int, regionIn region, depth int) (bool, region) {
	saved := c.Out
	w, r := c.analyseBuf("quiet", fn, pi, regionIn, depth)
	c.Out = saved
	return w, r
}

func (c *Ctx) RuleAppendOnly(fns ...*ssa.Function) {
	for _, fn := range fns {
		before := len(c.Out)
		c.analyseBuf("C16.append", fn, 0, rPrefix, 0)
		if len(c.Out) == before {
			c.add("discharged", "C16.append", fn, fn.Pos(), "result derives from buf by append-only operations; no element store can touch the caller's bytes")
		}
	}
}

// RuleAppendOnlyAt / RuleBufIndependentAt: the same two rules for a function whose buffer is parameter pi (a method
// taking the buffer after its receiver).
func (c *Ctx) RuleAppendOnlyAt(fn *ssa.Function, pi int) {
	before := len(c.Out)
	c.analyseBuf("C16.append", fn, pi, rPrefix, 0)
	if len(c.Out) == before {
		c.add("discharged", "C16.append", fn, fn.Pos(), "result derives from buf by append-only operations; no element store can touch the caller's bytes")
	}
}

func (c *Ctx) RuleBufIndependentAt(fn *ssa.Function, pi int) {
	before := len(c.Out)
	c.bufReads("C16.indep", fn, pi, rPrefix, 0)
	if len(c.Out) == before {
		c.add("discharged", "C16.indep", fn, fn.Pos(), "no read of the caller's existing bytes; len(buf) used only as a slicing bound")
	}
}

// RuleInputReadOnly: no store through an alias of a parser's input parameter (C17.ro).
func (c *Ctx) RuleInputReadOnly(fns ...*ssa.Function) {
	for _, fn := range fns {
		before := len(c.Out)
		// the inputs are the byte-sequence parameters (for a method: not the receiver) — all of them: the compare helpers
		// take two texts
		var pis []int
		for i, p := range fn.Params {
			if fn.Signature.Recv() != nil && i == 0 {
				continue
			}
			isInput := false
			switch t := p.Type().Underlying().(type) {
			case *types.Slice, *types.Interface:
				isInput = true
			case *types.Basic:
				if t.Info()&types.IsString != 0 {
					isInput = true
				}
			}
			if _, isTP := p.Type().(*types.TypeParam); isTP {
				isInput = true
			}
			if isInput {
				pis = append(pis, i)
			}
		}
		if len(pis) == 0 {
			c.add("undecided", "C17.ro", fn, fn.Pos(), "no byte-sequence parameter found")
			continue
		}
		for _, pi := range pis {
			c.inputRO(fn, pi, 0, map[*ssa.Function]bool{})
		}
		if len(c.Out) == before {
			c.add("discharged", "C17.ro", fn, fn.Pos(), "no write through an alias of the input")
		}
	}
}

// dropsLeading: v is (a merge or conversion of) a re-slice x[lo:] whose lower bound is present and not the constant 0.
func dropsLeading(v ssa.Value, depth int) bool {
	if depth > 4 {
		return false
	}
	switch x := v.(type) {
	case *ssa.Slice:
		if x.Low != nil {
			if k, ok := constInt(x.Low); !ok || k != 0 {
				return true
			}
		}
		return dropsLeading(x.X, depth+1)
	case *ssa.Phi:
		for _, e := range x.Edges {
			if dropsLeading(e, depth+1) {
				return true
			}
		}
	case *ssa.ChangeType:
		return dropsLeading(x.X, depth+1)
	}
	return false
}

// RuleFieldReadOnly: the methods of a type that keeps the parser's input in a field (the typed parse errors) only
// read it: no write through an alias of a load of that field.
func (c *Ctx) RuleFieldReadOnly(field string, fns ...*ssa.Function) {
	for _, fn := range fns {
		before := len(c.Out)
		roots := map[ssa.Value]bool{}
		for _, b := range fn.Blocks {
			for _, in := range b.Instrs {
				switch x := in.(type) {
				case *ssa.UnOp:
					if fa, ok := x.X.(*ssa.FieldAddr); ok && x.Op == token.MUL && fieldName(fa.X.Type(), fa.Field) == field {
						roots[x] = true
					}
				case *ssa.Field:
					if fieldName(x.X.Type(), x.Field) == field {
						roots[x] = true
					}
				}
			}
		}
		if len(roots) == 0 {
			c.add("discharged", "C17.ro", fn, fn.Pos(), "does not touch the kept input")
			continue
		}
		c.inputROFrom(fn, roots, 0, map[*ssa.Function]bool{})
		if len(c.Out) == before {
			c.add("discharged", "C17.ro", fn, fn.Pos(), "no write through an alias of the kept input (field "+field+")")
		}
	}
}

func fieldName(t types.Type, i int) string {
	if p, ok := t.Underlying().(*types.Pointer); ok {
		t = p.Elem()
	}
	if st, ok := t.Underlying().(*types.Struct); ok && i < st.NumFields() {
		return st.Field(i).Name()
	}
	return ""
}

func (c *Ctx) inputRO(fn *ssa.Function, pi int, depth int, seen map[*ssa.Function]bool) {
	c.inputROFrom(fn, map[ssa.Value]bool{fn.Params[pi]: true}, depth, seen)
}

func (c *Ctx) inputROFrom(fn *ssa.Function, roots map[ssa.Value]bool, depth int, seen map[*ssa.Function]bool) {
	if depth > 5 || seen[fn] {
		return
	}
	// on the stack only (recursion guard): the same helper is visited again when another of its parameters carries the
	// alias (comparePreRelease(b, a) and comparePreRelease(a, b))
	seen[fn] = true
	defer delete(seen, fn)
	alias := c.aliasClosure(fn, roots, depth)
	// closures see the captured cells and values
	for _, b := range fn.Blocks {
		for _, in := range b.Instrs {
			mc, ok := in.(*ssa.MakeClosure)
			if !ok {
				continue
			}
			cf, _ := mc.Fn.(*ssa.Function)
			if cf == nil {
				continue
			}
			roots := map[ssa.Value]bool{}
			for i, bv := range mc.Bindings {
				if alias[bv] && i < len(cf.FreeVars) {
					roots[cf.FreeVars[i]] = true
				}
			}
			if len(roots) > 0 {
				c.inputROFrom(cf, roots, depth+1, seen)
			}
		}
	}
	// retention through a carrier: an object built around the input (the typed parse error keeps it in its Input field)
	// is put into package-level state — a result cache, a "last error" — and read back by a later call, after the
	// caller has overwritten the bytes
	c.carrierRetained(fn, alias)
	for _, b := range fn.Blocks {
		for _, in := range b.Instrs {
			switch x := in.(type) {
			case *ssa.Store:
				if ia, ok := x.Addr.(*ssa.IndexAddr); ok && alias[ia.X] {
					if _, isByte := x.Val.Type().Underlying().(*types.Basic); isByte {
						c.add("violated", "C17.ro", fn, x.Pos(), "store into the parser's input bytes")
					}
				}
				// retention: a slice sharing the input's bytes is put where it outlives the call (a package-level
				// variable, or an object that is handed out) — a later call then sees whatever the caller wrote since
				if _, isSlice := x.Val.Type().Underlying().(*types.Slice); isSlice && alias[x.Val] {
					if where := outlives(x.Addr); where != "" {
						c.add("violated", "C17.ro", fn, x.Pos(), "a slice of the parser's input is kept in "+where+": the bytes belong to the caller, who may overwrite them before the next call reads them back")
					}
				}
			case *ssa.Call:
				cc := &x.Call
				if b, ok := cc.Value.(*ssa.Builtin); ok {
					if (b.Name() == "copy" || b.Name() == "append") && alias[cc.Args[0]] {
						c.add("violated", "C17.ro", fn, x.Pos(), b.Name()+" with the input as destination")
					}
					continue
				}
				callee := c.StaticCallee(cc)
				for ai, a := range cc.Args {
					if !alias[a] {
						continue
					}
					if _, ok := a.Type().Underlying().(*types.Basic); ok {
						continue // strings
					}
					switch {
					case callee == nil:
						c.add("undecided", "C17.ro", fn, x.Pos(), "input passed to dynamic callee")
					case inRepo(callee):
						c.inputRO(origin(callee), ai, depth+1, seen)
					case readOnly[origin(callee).String()] || aliasReturning[origin(callee).String()]:
					default:
						c.add("undecided", "C17.ro", fn, x.Pos(), "input passed to "+origin(callee).String()+" (no read-only summary)")
					}
				}
			}
		}
	}
}

// isLenOfBuf reports whether v is len(param), or Len() of a bytes.Buffer freshly created from param
// (same block as bytes.NewBuffer(param), no other use of the buffer in between): both denote the number of
// bytes the caller already had.
func isLenOfBuf(v ssa.Value, param ssa.Value) bool {
	call, ok := v.(*ssa.Call)
	if !ok {
		return false
	}
	if b, ok := call.Call.Value.(*ssa.Builtin); ok {
		return b.Name() == "len" && len(call.Call.Args) == 1 && call.Call.Args[0] == param
	}
	f := call.Call.StaticCallee()
	if f == nil || f.String() != "(*bytes.Buffer).Len" {
		return false
	}
	nb, ok := call.Call.Args[0].(*ssa.Call)
	if !ok || nb.Block() != call.Block() {
		return false
	}
	if g := nb.Call.StaticCallee(); g == nil || g.String() != "bytes.NewBuffer" || nb.Call.Args[0] != param {
		return false
	}
	between := false
	for _, in := range call.Block().Instrs {
		if in == ssa.Instruction(nb) {
			between = true
			continue
		}
		if in == ssa.Instruction(call) {
			return true
		}
		if !between {
			continue
		}
		for _, op := range in.Operands(nil) {
			if *op == ssa.Value(nb) {
				return false
			}
		}
	}
	return false
}

// outlives: the memory addr designates may survive the call — it lies in a package-level variable, or in an
// allocation that is returned, stored somewhere, boxed, or handed to a function outside the module. "" if it is a
// local that stays local.
func outlives(addr ssa.Value) string {
	if g := rootGlobal(addr); g != nil {
		return "package-level variable " + g.Name()
	}
	base := addr
	for i := 0; i < 8; i++ {
		switch y := base.(type) {
		case *ssa.FieldAddr:
			base = y.X
			continue
		case *ssa.IndexAddr:
			base = y.X
			continue
		}
		break
	}
	a, ok := base.(*ssa.Alloc)
	if !ok {
		return "memory reached through " + base.Name() + " (not a local of the parser)"
	}
	if !a.Heap {
		return ""
	}
	for _, r := range *a.Referrers() {
		switch u := r.(type) {
		case *ssa.Return:
			return "an object that is returned"
		case *ssa.MakeInterface:
			return "an object that is boxed into an interface"
		case *ssa.Store:
			if u.Val == ssa.Value(a) {
				return "an object whose address is stored"
			}
		case *ssa.Call:
			if f := u.Call.StaticCallee(); f == nil || !inRepo(f) {
				for _, arg := range u.Call.Args {
					if arg == ssa.Value(a) {
						return "an object handed to " + u.Call.String()
					}
				}
			}
		}
	}
	return ""
}

// rootGlobal: addr is a package-level variable or a field/element address inside one.
func rootGlobal(addr ssa.Value) *ssa.Global {
	for i := 0; i < 8; i++ {
		switch a := addr.(type) {
		case *ssa.Global:
			return a
		case *ssa.FieldAddr:
			addr = a.X
		case *ssa.IndexAddr:
			addr = a.X
		default:
			return nil
		}
	}
	return nil
}

// mustDerive: on every path v is buf extended — buf itself, an append (built-in or append-style library call) to such
// a value, the bytes of a bytes.Buffer created over one, or the first result of a function of the module that,
// handed such a value, returns on every non-failure path a value built on that parameter.
func (c *Ctx) mustDerive(v ssa.Value, buf ssa.Value, depth int, seen map[ssa.Value]bool) bool {
	if v == buf {
		return true
	}
	if seen[v] {
		return true // a cycle through a loop phi: decided by its other edges
	}
	seen[v] = true
	if depth > 6 {
		return false
	}
	switch x := v.(type) {
	case *ssa.Phi:
		for _, ed := range x.Edges {
			if !c.mustDerive(ed, buf, depth, seen) {
				return false
			}
		}
		return true
	case *ssa.Slice:
		return c.mustDerive(x.X, buf, depth, seen)
	case *ssa.ChangeType:
		return c.mustDerive(x.X, buf, depth, seen)
	case *ssa.Convert:
		return c.mustDerive(x.X, buf, depth, seen)
	case *ssa.Extract:
		if x.Index != 0 {
			return false
		}
		return c.mustDerive(x.Tuple, buf, depth, seen)
	case *ssa.Call:
		cc := &x.Call
		if b, ok := cc.Value.(*ssa.Builtin); ok {
			return b.Name() == "append" && c.mustDerive(cc.Args[0], buf, depth, seen)
		}
		callee := c.StaticCallee(cc)
		if callee == nil {
			return false
		}
		name := origin(callee).String()
		switch {
		case name == "(*bytes.Buffer).Bytes":
			// the buffer object: bytes.NewBuffer(x)
			if nb, ok := cc.Args[0].(*ssa.Call); ok {
				if f := nb.Call.StaticCallee(); f != nil && f.String() == "bytes.NewBuffer" {
					return c.mustDerive(nb.Call.Args[0], buf, depth, seen)
				}
			}
			return false
		case appendOnly[name] && len(cc.Args) > 0:
			return c.mustDerive(cc.Args[0], buf, depth, seen)
		case inRepo(callee):
			g := origin(callee)
			for ai, a := range cc.Args {
				if ai >= len(g.Params) {
					break
				}
				if _, isSlice := a.Type().Underlying().(*types.Slice); !isSlice || !c.mustDerive(a, buf, depth, seen) {
					continue
				}
				ok := true
				n := 0
				for _, r := range Returns(g) {
					vals := ReturnValues(r)
					if len(vals) == 0 {
						ok = false
						break
					}
					if k := len(vals); k >= 2 && isErrorType(vals[k-1].Type()) && !isNilConst(vals[k-1]) && isNilConst(vals[0]) {
						continue
					}
					n++
					if !c.mustDerive(vals[0], g.Params[ai], depth+1, map[ssa.Value]bool{}) {
						ok = false
					}
				}
				if ok && n > 0 {
					return true
				}
			}
			return false
		}
	}
	return false
}

// calleeVarName: the package-level variable a called function value is loaded from ("Formatter"), else "function value".
func calleeVarName(v ssa.Value) string {
	if ld, ok := v.(*ssa.UnOp); ok && ld.Op == token.MUL {
		if g, ok := ld.X.(*ssa.Global); ok {
			return g.Name()
		}
	}
	return "function value"
}

// mayHoldBytes: a value of type t can hold, directly or inside, a byte slice (or a value of a type parameter that may
// be one, or an interface value whose dynamic type is not known).
func mayHoldBytes(t types.Type, depth int) bool {
	if depth > 5 {
		return true
	}
	switch u := t.Underlying().(type) {
	case *types.Basic:
		return false
	case *types.Slice:
		if b, ok := u.Elem().Underlying().(*types.Basic); ok {
			return b.Kind() == types.Uint8
		}
		return mayHoldBytes(u.Elem(), depth+1)
	case *types.Array:
		return mayHoldBytes(u.Elem(), depth+1)
	case *types.Pointer:
		return mayHoldBytes(u.Elem(), depth+1)
	case *types.Map:
		return mayHoldBytes(u.Key(), depth+1) || mayHoldBytes(u.Elem(), depth+1)
	case *types.Struct:
		for i := 0; i < u.NumFields(); i++ {
			if mayHoldBytes(u.Field(i).Type(), depth+1) {
				return true
			}
		}
		return false
	case *types.Interface:
		return true
	case *types.Signature, *types.Chan:
		return true
	}
	if _, ok := t.(*types.TypeParam); ok {
		return true
	}
	return false
}

// carries: v holds (a view of) one of the values in src — the input bytes — rather than a copy: v is one of them, a
// re-typing, boxing or part of one, an object whose fields were stored from one, or the result of a function of the
// module that returns such an object built from the argument that carries. A conversion to string copies.
func (c *Ctx) carries(v ssa.Value, src map[ssa.Value]bool, depth int, seen map[ssa.Value]bool) bool {
	if v == nil || depth > 12 || seen[v] {
		return false
	}
	if src[v] && mayHoldBytes(v.Type(), 0) {
		return true
	}
	if !mayHoldBytes(v.Type(), 0) {
		return false
	}
	seen[v] = true
	switch x := v.(type) {
	case *ssa.Convert:
		if b, ok := x.Type().Underlying().(*types.Basic); ok && b.Info()&types.IsString != 0 {
			return false
		}
		return c.carries(x.X, src, depth+1, seen)
	case *ssa.MultiConvert:
		if b, ok := x.Type().Underlying().(*types.Basic); ok && b.Info()&types.IsString != 0 {
			return false
		}
		return c.carries(x.X, src, depth+1, seen)
	case *ssa.ChangeType:
		return c.carries(x.X, src, depth+1, seen)
	case *ssa.ChangeInterface:
		return c.carries(x.X, src, depth+1, seen)
	case *ssa.MakeInterface:
		return c.carries(x.X, src, depth+1, seen)
	case *ssa.Slice:
		return c.carries(x.X, src, depth+1, seen)
	case *ssa.Extract:
		if call, ok := x.Tuple.(*ssa.Call); ok {
			return c.callCarries(call, x.Index, src, depth+1, seen)
		}
		return c.carries(x.Tuple, src, depth+1, seen)
	case *ssa.Phi:
		for _, e := range x.Edges {
			if c.carries(e, src, depth+1, seen) {
				return true
			}
		}
	case *ssa.UnOp:
		if x.Op == token.MUL {
			return c.carries(x.X, src, depth+1, seen) // a load: what the cell (or the object) holds
		}
	case *ssa.FieldAddr:
		return c.carries(x.X, src, depth+1, seen)
	case *ssa.Field:
		return c.carries(x.X, src, depth+1, seen)
	case *ssa.Alloc:
		// a local or a composite literal: what is stored into it or into its fields
		if x.Referrers() != nil {
			for _, r := range *x.Referrers() {
				switch u := r.(type) {
				case *ssa.Store:
					if u.Addr == ssa.Value(x) && c.carries(u.Val, src, depth+1, seen) {
						return true
					}
				case *ssa.FieldAddr:
					if u.Referrers() != nil {
						for _, r2 := range *u.Referrers() {
							if st, ok := r2.(*ssa.Store); ok && st.Addr == ssa.Value(u) && c.carries(st.Val, src, depth+1, seen) {
								return true
							}
						}
					}
				}
			}
		}
	case *ssa.Call:
		if bi, ok := x.Call.Value.(*ssa.Builtin); ok && bi.Name() == "append" {
			for _, a := range x.Call.Args {
				if c.carries(a, src, depth+1, seen) {
					return true
				}
			}
			return false
		}
		return c.callCarries(x, -1, src, depth+1, seen)
	}
	return false
}

// callCarries: result `index` (-1: the single result) of the call holds one of src.
func (c *Ctx) callCarries(call *ssa.Call, index int, src map[ssa.Value]bool, depth int, seen map[ssa.Value]bool) bool {
	callee := c.StaticCallee(&call.Call)
	if callee == nil {
		return false
	}
	name := origin(callee).String()
	if !inRepo(callee) {
		// fmt.Errorf wrapping an error that carries (not one that prints the bytes: formatting copies)
		if name == "fmt.Errorf" && len(call.Call.Args) == 2 {
			for _, a := range varargs(call.Call.Args[1]) {
				if mi, ok := a.(*ssa.MakeInterface); ok && isErrorType(mi.X.Type()) || a != nil && isErrorType(a.Type()) {
					if c.carries(a, src, depth+1, seen) {
						return true
					}
				}
			}
		}
		return false
	}
	g := origin(callee)
	for ai, a := range call.Call.Args {
		if ai >= len(g.Params) || !c.carries(a, src, depth+1, map[ssa.Value]bool{}) {
			continue
		}
		inner := map[ssa.Value]bool{g.Params[ai]: true}
		for _, b := range g.Blocks {
			ret, ok := b.Instrs[len(b.Instrs)-1].(*ssa.Return)
			if !ok {
				continue
			}
			for ri, rv := range ret.Results {
				if index >= 0 && ri != index {
					continue
				}
				if c.carries(rv, inner, depth+1, map[ssa.Value]bool{}) {
					return true
				}
			}
		}
	}
	return false
}

// carrierRetained: reports stores of a carrier of the input (see carries) into package-level state.
func (c *Ctx) carrierRetained(fn *ssa.Function, alias map[ssa.Value]bool) {
	c.carrierRetainedAt(fn, alias, 0)
}

func (c *Ctx) carrierRetainedAt(fn *ssa.Function, alias map[ssa.Value]bool, depth int, gparams ...map[ssa.Value]*ssa.Global) {
	// gp: parameters of a helper that the caller bound to package-level state (`rejected.put(key, err)` with the
	// pointer-typed package variable `rejected` as receiver): what is stored through them stays
	var gp map[ssa.Value]*ssa.Global
	if len(gparams) > 0 {
		gp = gparams[0]
	}
	fromGlobal := func(v ssa.Value) *ssa.Global {
		for i := 0; i < 6; i++ {
			switch y := v.(type) {
			case *ssa.UnOp:
				if y.Op == token.MUL {
					if g := rootGlobal(y.X); g != nil {
						return g
					}
					v = y.X
					continue
				}
			case *ssa.FieldAddr:
				v = y.X
				continue
			case *ssa.Global:
				return y
			case *ssa.Parameter:
				return gp[y]
			}
			break
		}
		return nil
	}
	for _, b := range fn.Blocks {
		for _, in := range b.Instrs {
			var g *ssa.Global
			var vals []ssa.Value
			switch x := in.(type) {
			case *ssa.Store:
				if _, isSlice := x.Val.Type().Underlying().(*types.Slice); isSlice && alias[x.Val] {
					continue // a slice of the input itself: the retention rule below
				}
				g, vals = rootGlobal(x.Addr), []ssa.Value{x.Val}
				if g == nil {
					g = fromGlobal(x.Addr)
				}
			case *ssa.MapUpdate:
				g, vals = fromGlobal(x.Map), []ssa.Value{x.Key, x.Value}
			case *ssa.Call:
				// (*sync.Map).Store / (*atomic.Value).Store on package-level state
				if f := x.Call.StaticCallee(); f != nil && !inRepo(f) && (f.Name() == "Store" || f.Name() == "Swap" || f.Name() == "LoadOrStore" || f.Name() == "CompareAndSwap") && len(x.Call.Args) >= 2 {
					g, vals = fromGlobal(x.Call.Args[0]), x.Call.Args[1:]
				}
				// a helper of the module that is handed a carrier (remember(key, v, err)): what it does with it
				if f := c.StaticCallee(&x.Call); f != nil && inRepo(f) && depth < 3 {
					gfn := origin(f)
					inner := map[ssa.Value]bool{}
					bound := map[ssa.Value]*ssa.Global{}
					for ai, a := range x.Call.Args {
						if ai < len(gfn.Params) && !alias[a] && c.carries(a, alias, 0, map[ssa.Value]bool{}) {
							inner[gfn.Params[ai]] = true
						}
						if ai < len(gfn.Params) {
							if _, isPtr := a.Type().Underlying().(*types.Pointer); isPtr {
								if pg := fromGlobal(a); pg != nil {
									bound[gfn.Params[ai]] = pg
								}
							}
						}
					}
					if len(inner) > 0 {
						c.carrierRetainedAt(gfn, inner, depth+1, bound)
					}
				}
			}
			if g == nil {
				continue
			}
			for _, v := range vals {
				if c.carries(v, alias, 0, map[ssa.Value]bool{}) {
					c.add("violated", "C17.ro", fn, in.Pos(), "an object that holds the parser's input (an error keeping it, a struct around it) is stored in package-level "+g.Name()+": what a later call reads back there shows whatever the caller has written into its buffer since")
					break
				}
			}
		}
	}
}

// aliasClosure: the values of fn that share bytes with one of roots (the fixpoint inputROFrom works on). The result
// of a function of the module that is handed such a value, and may return it or a part of it, is one too.
func (c *Ctx) aliasClosure(fn *ssa.Function, roots map[ssa.Value]bool, depth int) map[ssa.Value]bool {
	alias := map[ssa.Value]bool{}
	for r := range roots {
		alias[r] = true
	}
	changed := true
	for changed {
		changed = false
		mark := func(v ssa.Value) {
			if !alias[v] {
				alias[v] = true
				changed = true
			}
		}
		for _, b := range fn.Blocks {
			for _, in := range b.Instrs {
				switch x := in.(type) {
				case *ssa.MultiConvert:
					if alias[x.X] {
						if _, ok := x.Type().Underlying().(*types.Slice); ok {
							mark(x)
						}
					}
				case *ssa.Convert:
					if alias[x.X] {
						if _, ok := x.Type().Underlying().(*types.Slice); ok {
							if _, ok2 := x.X.Type().Underlying().(*types.Slice); ok2 {
								mark(x)
							}
						}
					}
				case *ssa.ChangeType:
					if alias[x.X] {
						mark(x)
					}
				case *ssa.Slice:
					if alias[x.X] {
						if _, ok := x.Type().Underlying().(*types.Basic); !ok { // strings are immutable
							mark(x)
						}
					}
				case *ssa.Phi:
					for _, e := range x.Edges {
						if alias[e] {
							mark(x)
						}
					}
				case *ssa.Call:
					if f := x.Call.StaticCallee(); f != nil {
						name := origin(f).String()
						if (name == "(*regexp.Regexp).FindSubmatch" || name == "(*regexp.Regexp).FindAllSubmatch" || name == "(*regexp.Regexp).Find") && len(x.Call.Args) > 1 && alias[x.Call.Args[1]] {
							mark(x) // [][]byte aliasing the subject
						}
						if aliasReturning[name] && len(x.Call.Args) > 0 && alias[x.Call.Args[0]] {
							mark(x)
						}
						// a helper of the module that returns (a part of) what it was handed: `trimmed(input)`
						if g := origin(f); inRepo(g) && len(g.Blocks) > 0 && depth < 4 && !alias[x] {
							for ai, a := range x.Call.Args {
								if !alias[a] || ai >= len(g.Params) {
									continue
								}
								if _, isStr := a.Type().Underlying().(*types.Basic); isStr {
									continue
								}
								sub := c.aliasClosure(g, map[ssa.Value]bool{g.Params[ai]: true}, depth+1)
								for _, gb := range g.Blocks {
									if ret, ok := gb.Instrs[len(gb.Instrs)-1].(*ssa.Return); ok {
										for _, rv := range ret.Results {
											if sub[rv] {
												mark(x)
											}
										}
									}
								}
							}
						}
					}
				case *ssa.IndexAddr:
					if alias[x.X] {
						if _, ok := x.Type().Underlying().(*types.Pointer).Elem().Underlying().(*types.Slice); ok {
							mark(x) // &parts[k] : pointer to aliasing slice
						}
					}
				case *ssa.UnOp:
					if x.Op == token.MUL && alias[x.X] {
						mark(x)
					}
				case *ssa.TypeAssert: // src.([]byte) of an interface-typed input (Scan): the caller's bytes
					if alias[x.X] {
						mark(x)
					}
				case *ssa.Extract:
					if cl, ok := x.Tuple.(*ssa.Call); ok && alias[cl] {
						if _, isSlice := x.Type().Underlying().(*types.Slice); isSlice {
							mark(x)
						}
					}
					if ta, ok := x.Tuple.(*ssa.TypeAssert); ok && alias[ta] && x.Index == 0 {
						if _, isSlice := x.Type().Underlying().(*types.Slice); isSlice {
							mark(x)
						}
					}
				case *ssa.Store:
					// a local variable that lives in a cell (captured by a closure, or address taken): the cell then
					// points to a slice sharing the input's bytes, and every load of it is such a slice
					if a, ok := x.Addr.(*ssa.Alloc); ok && alias[x.Val] {
						if _, isSlice := x.Val.Type().Underlying().(*types.Slice); isSlice {
							mark(a)
						}
					}
				}
			}
		}
	}
	return alias
}
