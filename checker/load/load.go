// Package load loads the module under analysis (type-checked syntax of every
// package plus dependencies) and builds its SSA form.
package load

import (
	"fmt"
	"go/types"
	"os"
	"sort"
	"strings"

	"golang.org/x/tools/go/packages"
	"golang.org/x/tools/go/ssa"
	"golang.org/x/tools/go/ssa/ssautil"
)

type Prog struct {
	Dir    string
	Pkgs   []*packages.Package // packages of the module itself, sorted by path
	SSA    *ssa.Program
	ByName map[string]*ssa.Package
	ByPkg  map[string]*packages.Package
	// WordBits: width of int/uint/uintptr on the target the tree was loaded for
	WordBits int
}

// Load loads dir/... . extraEnv entries (e.g. "GOARCH=386") are appended to the environment.
// Any load or type error is returned as an error: a tree that does not type-check is never "verified".
func Load(dir string, modPrefix string, extraEnv ...string) (*Prog, error) {
	env := append(os.Environ(), "GOWORK=off", "GOFLAGS=-mod=mod", "GOPROXY=off", "GOSUMDB=off", "GOTOOLCHAIN=local")
	env = append(env, extraEnv...)
	cfg := &packages.Config{Mode: packages.LoadAllSyntax, Dir: dir, Env: env, Tests: false}
	pkgs, err := packages.Load(cfg, "./...")
	if err != nil {
		return nil, err
	}
	var errs []string
	packages.Visit(pkgs, nil, func(p *packages.Package) {
		for _, e := range p.Errors {
			errs = append(errs, e.Error())
		}
	})
	if len(errs) > 0 {
		return nil, fmt.Errorf("%d load/type error(s): %s", len(errs), strings.Join(errs, "; "))
	}
	sort.Slice(pkgs, func(i, j int) bool { return pkgs[i].PkgPath < pkgs[j].PkgPath })
	prog, spkgs := ssautil.AllPackages(pkgs, ssa.InstantiateGenerics)
	prog.Build()
	p := &Prog{Dir: dir, SSA: prog, ByName: map[string]*ssa.Package{}, ByPkg: map[string]*packages.Package{}}
	for i, sp := range spkgs {
		if sp == nil || !strings.HasPrefix(pkgs[i].PkgPath, modPrefix) {
			continue
		}
		p.Pkgs = append(p.Pkgs, pkgs[i])
		p.ByName[sp.Pkg.Name()] = sp
		p.ByPkg[sp.Pkg.Name()] = pkgs[i]
		if pkgs[i].TypesSizes != nil {
			p.WordBits = int(pkgs[i].TypesSizes.Sizeof(types.Typ[types.Int])) * 8
		}
	}
	if p.WordBits == 0 {
		p.WordBits = 64
	}
	if len(p.Pkgs) == 0 {
		return nil, fmt.Errorf("no package of %s loaded from %s", modPrefix, dir)
	}
	return p, nil
}

// Method returns the SSA function for method name on named type tname (value or pointer receiver).
func (p *Prog) Method(pkg, tname, name string) *ssa.Function {
	sp := p.ByName[pkg]
	if sp == nil {
		return nil
	}
	t := sp.Type(tname)
	if t == nil {
		return nil
	}
	for _, ptr := range []bool{false, true} {
		typ := t.Type()
		if ptr {
			typ = types.NewPointer(typ)
		}
		ms := p.SSA.MethodSets.MethodSet(typ)
		for i := 0; i < ms.Len(); i++ {
			if ms.At(i).Obj().Name() == name {
				return p.SSA.MethodValue(ms.At(i))
			}
		}
	}
	return nil
}

// Func returns package-level function name of package pkg, or nil.
func (p *Prog) Func(pkg, name string) *ssa.Function {
	sp := p.ByName[pkg]
	if sp == nil {
		return nil
	}
	return sp.Func(name)
}

// Var returns package-level variable name of package pkg, or nil.
func (p *Prog) Var(pkg, name string) *ssa.Global {
	sp := p.ByName[pkg]
	if sp == nil {
		return nil
	}
	return sp.Var(name)
}
