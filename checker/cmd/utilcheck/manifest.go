package main

import (
	"bufio"
	"encoding/json"
	"fmt"
	"os"
	"path/filepath"
	"strings"

	"utilcheck/props"
)

// writeManifest regenerates MANIFEST.json from the registry, so that the interface file can never drift
// from what the checker implements.
func writeManifest(vdir string) error {
	f, err := os.Open(filepath.Join(vdir, "properties.jsonl"))
	if err != nil {
		return err
	}
	defer f.Close()
	var all []string
	sc := bufio.NewScanner(f)
	sc.Buffer(make([]byte, 1<<20), 1<<22)
	for sc.Scan() {
		var rec struct {
			ID string `json:"id"`
		}
		if json.Unmarshal(sc.Bytes(), &rec) == nil && rec.ID != "" {
			all = append(all, rec.ID)
		}
	}
	type level struct {
		Category  string `json:"category"`
		Text      string `json:"text"`
		DesignRef string `json:"design_ref"`
	}
	type check struct {
		PropertyID string `json:"property_id"`
		Quick      string `json:"quick_cmd"`
		Thorough   string `json:"thorough_cmd"`
		Evidence   string `json:"evidence_file"`
		Replay     string `json:"replay_cmd_template"`
		Engine     string `json:"engine"`
		Level      level  `json:"level_claimed"`
		Note       string `json:"level_note"`
		Technique  string `json:"technique"`
	}
	type na struct {
		PropertyID string `json:"property_id"`
		Reason     string `json:"reason"`
	}
	var checks []check
	nas := []na{}
	for _, id := range all {
		p := props.Registry[id]
		if p == nil {
			nas = append(nas, na{id, "no sound static rule implemented yet for any clause of this property; see DESIGN.md"})
			continue
		}
		checks = append(checks, check{
			PropertyID: id,
			Quick:      "./bin/utilcheck -prop " + id + " -tier quick",
			Thorough:   "./bin/utilcheck -prop " + id + " -tier thorough",
			Evidence:   "/verif/evidence/" + id + ".json",
			Replay:     "./bin/utilcheck -replay {path}",
			Engine:     "utilcheck",
			Level: level{"other",
				"Static decision (no code of /repo is executed) of structural clauses that are necessary conditions of the property: " + p.Explanation +
					" NOT decided by this check: " + strings.Join(p.NotDecided, "; ") + ".",
				"DESIGN.md §4 " + id},
			Note:      "Trusted base: go/types, go/ssa (x/tools v0.29.0), regexp/syntax, and the stdlib summaries of DESIGN.md §2.5. Assumes: " + strings.Join(p.Assumptions, "; ") + ".",
			Technique: p.Technique,
		})
	}
	m := map[string]any{
		"version":   1,
		"setup_cmd": "cd checker && GOFLAGS=-mod=mod GOPROXY=off GOSUMDB=off GOTOOLCHAIN=local GOWORK=off go build -o ../bin/utilcheck ./cmd/utilcheck",
		"hooks": map[string]any{
			"guard":            "verif",
			"enable":           "no hooks: the checks analyse /repo's source as it is (go/packages + go/ssa); nothing in /repo is instrumented or built with a tag",
			"baseline_off_cmd": "cd /repo && GOFLAGS=-mod=mod GOPROXY=off GOSUMDB=off go test -vet=off -count=1 ./...",
			"source_commits":   []string{},
			"add_only":         true,
		},
		"engines": []map[string]any{{
			"name": "utilcheck", "path": "checker/cmd/utilcheck", "serves_properties": props.IDs(),
			"kind_free_text": "repository-specific static analyser over go/types + go/ssa: regular-language decision procedure (LANG), finite predicate abstraction (PRED), bit-provenance (BITS), dominator/path/alias rules (FLOW), table and format-string reading (TAB)",
		}},
		"checks":         checks,
		"not_applicable": nas,
		"notes":          "Technique family: static analysis only. Every check loads and type-checks /repo's current working tree on every run; violated or undecided obligations, missing anchors, load/type errors and analyser panics all exit 1 with a VIOLATION line. Genuine defects found are repaired by 'fix:' commits in /repo and recorded in known_findings.json.",
	}
	b, err := json.MarshalIndent(m, "", " ")
	if err != nil {
		return err
	}
	if err := os.WriteFile(filepath.Join(vdir, "MANIFEST.json"), append(b, '\n'), 0o644); err != nil {
		return err
	}
	fmt.Printf("MANIFEST.json: %d checks, %d not applicable\n", len(checks), len(nas))
	return nil
}
