// Command utilcheck decides the properties of /verif/properties.jsonl for the
// tree in /repo by static analysis only (no code of the tree is executed).
package main

import (
	"encoding/json"
	"flag"
	"fmt"
	"os"
	"path/filepath"
	"runtime/debug"
	"strconv"
	"strings"
	"time"

	"utilcheck/core"
	"utilcheck/flow"
	"utilcheck/load"
	"utilcheck/pred"
	"utilcheck/props"
)

func main() {
	prop := flag.String("prop", "", "property id (C01..C20) or 'all'")
	tier := flag.String("tier", "quick", "quick | thorough")
	repo := flag.String("repo", "/repo", "tree to analyse")
	verif := flag.String("verif", "", "verif directory (default: directory above the binary, else /verif)")
	only := flag.String("only", "", "run only rules with this prefix")
	verbose := flag.Bool("v", false, "print every obligation")
	noEvidence := flag.Bool("no-evidence", false, "do not write evidence (self-test runs on scratch copies)")
	manifest := flag.Bool("manifest", false, "regenerate MANIFEST.json from the registry and exit")
	writeAnchors := flag.Bool("write-anchors", false, "record the signatures/types of the tree's package-level members in anchors.json and exit")
	replay := flag.String("replay", "", "replay file written by an earlier run: re-runs that obligation's rule on the current tree")
	flag.Parse()
	if t := os.Getenv("VERIF_TIER"); t != "" && *tier == "" {
		*tier = t
	}
	vdir := *verif
	if vdir == "" {
		vdir = "/verif"
		if exe, err := os.Executable(); err == nil {
			d := filepath.Dir(filepath.Dir(exe))
			if _, err := os.Stat(filepath.Join(d, "properties.jsonl")); err == nil {
				vdir = d
			}
		}
	}
	if *manifest {
		if err := writeManifest(vdir); err != nil {
			fmt.Println("BROKEN", err)
			os.Exit(2)
		}
		return
	}
	if *replay != "" {
		b, err := os.ReadFile(*replay)
		var rec struct {
			Property   string `json:"property"`
			Obligation struct {
				Rule string `json:"rule"`
			} `json:"obligation"`
		}
		if err != nil || json.Unmarshal(b, &rec) != nil || rec.Property == "" {
			fmt.Println("BROKEN cannot read replay file", *replay)
			os.Exit(2)
		}
		*prop, *only, *verbose, *noEvidence = rec.Property, rec.Obligation.Rule, true, true
	}
	seed, _ := strconv.ParseInt(os.Getenv("VERIF_SEED"), 10, 64)
	var ids []string
	if *prop == "all" || *prop == "" {
		ids = props.IDs()
	} else {
		ids = strings.Split(*prop, ",")
	}
	known, err := core.LoadKnown(filepath.Join(vdir, "known_findings.json"))
	if err != nil {
		fmt.Printf("BROKEN cannot read known_findings.json: %v\n", err)
		os.Exit(2)
	}
	start := time.Now()
	p, lerr := load.Load(*repo, props.ModPath)
	var p386 *load.Prog
	var lerr386 error
	if lerr == nil && *tier == "thorough" {
		p386, lerr386 = load.Load(*repo, props.ModPath, "GOARCH=386")
	}
	var fix *load.Prog
	var lerrFix error
	for _, id := range ids {
		if props.NeedsControls(id) && fix == nil && lerrFix == nil && lerr == nil {
			fix, lerrFix = load.Load(filepath.Join(vdir, "fixtures"), "go.lstv.dev/utilfix")
		}
	}
	props.LoadAnchors(vdir)
	if *writeAnchors {
		if lerr != nil {
			fmt.Println("BROKEN", lerr)
			os.Exit(2)
		}
		env := &props.Env{P: p, C: &flow.Ctx{Prog: p.SSA, ModPath: props.ModPath}, S: &core.Sink{}}
		if err := props.WriteAnchors(env, vdir); err != nil {
			fmt.Println("BROKEN", err)
			os.Exit(2)
		}
		fmt.Println("anchors.json written")
		return
	}
	loadS := time.Since(start).Seconds()
	exit := 0
	for _, id := range ids {
		pr := props.Registry[id]
		if pr == nil {
			fmt.Printf("BROKEN unknown property %s\n", id)
			exit = 2
			continue
		}
		t0 := time.Now()
		rep := &core.Report{Prop: id, Tier: *tier, Explanation: pr.Explanation, NotDecided: pr.NotDecided, Assumptions: pr.Assumptions, Extra: map[string]any{}}
		if p != nil && p.WordBits == 32 {
			rep.Platform = "GOARCH=386"
		}
		if lerr != nil {
			rep.Broken = append(rep.Broken, "load: "+lerr.Error())
		} else if lerr386 != nil {
			rep.Broken = append(rep.Broken, "load GOARCH=386: "+lerr386.Error())
		} else {
			env := &props.Env{P: p, C: &flow.Ctx{Prog: p.SSA, ModPath: props.ModPath}, S: &core.Sink{}, Tier: *tier, Only: *only, P386: p386}
			func() {
				defer func() {
					if r := recover(); r != nil {
						rep.Broken = append(rep.Broken, fmt.Sprintf("analyser panic: %v\n%s", r, debug.Stack()))
					}
				}()
				pred.WordBits = p.WordBits
				pr.Run(env)
			}()
			for _, o := range env.S.Obs {
				if *only == "" || strings.HasPrefix(o.Rule, *only) {
					rep.Obs = append(rep.Obs, o)
				}
			}
			// thorough tier: the same rules on the program loaded under GOARCH=386 (word-size dependent code,
			// build-tagged files); obligations are kept apart by a construct suffix
			if p386 != nil {
				env386 := &props.Env{P: p386, C: &flow.Ctx{Prog: p386.SSA, ModPath: props.ModPath}, S: &core.Sink{}, Tier: *tier, Only: *only}
				func() {
					defer func() {
						if r := recover(); r != nil {
							rep.Broken = append(rep.Broken, fmt.Sprintf("analyser panic (GOARCH=386): %v\n%s", r, debug.Stack()))
						}
					}()
					pred.WordBits = p386.WordBits
					defer func() { pred.WordBits = p.WordBits }()
					pr.Run(env386)
				}()
				for _, o := range env386.S.Obs {
					if *only == "" || strings.HasPrefix(o.Rule, *only) {
						o.Construct += " [GOARCH=386]"
						rep.Obs = append(rep.Obs, o)
					}
				}
				rep.Extra["goarch_386_obligations"] = len(env386.S.Obs)
			}
			if props.NeedsControls(id) && *only == "" {
				if lerrFix != nil {
					rep.Broken = append(rep.Broken, "load fixtures: "+lerrFix.Error())
				} else if fix != nil {
					props.RunControls(id, fix, rep)
				}
			}
			if *tier == "thorough" {
				props.Thorough(env, id, rep, *repo, vdir)
			}
			rep.Extra["packages_loaded"] = len(p.Pkgs)
			rep.Extra["functions_in_module"] = len(env.C.AllRepoFuncs())
			rep.Extra["load_s"] = loadS
		}
		if *verbose {
			for _, o := range rep.Obs {
				fmt.Println(o.String())
			}
		}
		wall := time.Since(t0).Seconds() + loadS
		var code int
		if *noEvidence {
			code = rep.EmitNoEvidence(known)
		} else {
			code = rep.Emit(vdir, known, seed, wall)
		}
		if code > exit {
			exit = code
		}
	}
	os.Exit(exit)
}
