// Command mutate lists single-token mutations of the library's non-test sources (operator swaps, integer literals
// off by one, negated conditions) as JSON lines. It is a tool for testing the checker, not a check: scripts/
// mutation_run.py applies each mutation to a scratch copy, keeps those the library's own suite does not notice and
// asks which of them the static checks report; the survivors of both are either equivalent mutants or holes in the
// rules, to be read by hand.
package main

import (
	"encoding/json"
	"flag"
	"fmt"
	"go/ast"
	"go/parser"
	"go/token"
	"os"
	"path/filepath"
	"sort"
	"strings"
)

type Mutation struct {
	File   string `json:"file"`
	Line   int    `json:"line"`
	Offset int    `json:"offset"`
	Old    string `json:"old"`
	New    string `json:"new"`
	Kind   string `json:"kind"`
	Func   string `json:"func"`
}

var swaps = map[token.Token][]string{
	token.EQL: {"!="}, token.NEQ: {"=="},
	token.LSS: {"<=", ">"}, token.LEQ: {"<"}, token.GTR: {">=", "<"}, token.GEQ: {">"},
	token.LAND: {"||"}, token.LOR: {"&&"},
	token.ADD: {"-"}, token.SUB: {"+"}, token.MUL: {"+"}, token.QUO: {"*"}, token.REM: {"/"},
	token.AND: {"|"}, token.OR: {"&"}, token.SHL: {">>"}, token.SHR: {"<<"}, token.AND_NOT: {"&"},
}

func main() {
	repo := flag.String("repo", "/repo", "library root")
	pkgs := flag.String("pkgs", "date,roman,sem,size,uu,internal,test", "directories to mutate")
	flag.Parse()
	var out []Mutation
	for _, dir := range strings.Split(*pkgs, ",") {
		files, _ := filepath.Glob(filepath.Join(*repo, dir, "*.go"))
		sort.Strings(files)
		for _, f := range files {
			if strings.HasSuffix(f, "_test.go") {
				continue
			}
			src, err := os.ReadFile(f)
			if err != nil {
				continue
			}
			fset := token.NewFileSet()
			af, err := parser.ParseFile(fset, f, src, 0)
			if err != nil {
				fmt.Fprintln(os.Stderr, err)
				continue
			}
			rel, _ := filepath.Rel(*repo, f)
			for _, d := range af.Decls {
				fd, ok := d.(*ast.FuncDecl)
				name := "(package level)"
				var body ast.Node = d
				if ok {
					name = fd.Name.Name
					if fd.Body == nil {
						continue
					}
					body = fd.Body
				} else if gd, isGen := d.(*ast.GenDecl); !isGen || gd.Tok == token.IMPORT || gd.Tok == token.TYPE {
					continue
				}
				add := func(pos token.Pos, old, new, kind string) {
					p := fset.Position(pos)
					out = append(out, Mutation{File: rel, Line: p.Line, Offset: p.Offset, Old: old, New: new, Kind: kind, Func: name})
				}
				ast.Inspect(body, func(n ast.Node) bool {
					switch x := n.(type) {
					case *ast.BinaryExpr:
						for _, alt := range swaps[x.Op] {
							add(x.OpPos, x.Op.String(), alt, "operator")
						}
					case *ast.BasicLit:
						if x.Kind == token.STRING {
							for _, r := range [][2]string{{"%w", "%v"}, {"%q", "%s"}, {"%04d", "%4d"}, {"%02d", "%2d"}, {"%08x", "%8x"}, {"%04x", "%4x"}, {"%012x", "%12x"}, {"%d", "%x"}} {
								if i := strings.Index(x.Value, r[0]); i >= 0 {
									add(x.ValuePos+token.Pos(i), r[0], r[1], "format")
								}
							}
						}
						if x.Kind == token.INT && !strings.HasPrefix(x.Value, "0x") && !strings.HasPrefix(x.Value, "0b") && len(x.Value) < 10 && !strings.Contains(x.Value, "_") {
							var v int64
							if _, err := fmt.Sscan(x.Value, &v); err == nil {
								add(x.ValuePos, x.Value, fmt.Sprint(v+1), "literal+1")
								if v > 0 {
									add(x.ValuePos, x.Value, fmt.Sprint(v-1), "literal-1")
								}
							}
						}
					case *ast.IfStmt:
						s, e := fset.Position(x.Cond.Pos()).Offset, fset.Position(x.Cond.End()).Offset
						add(x.Cond.Pos(), string(src[s:e]), "!("+string(src[s:e])+")", "negate-if")
					case *ast.UnaryExpr:
						if x.Op == token.NOT {
							add(x.OpPos, "!", "", "drop-not")
						}
					case *ast.ExprStmt:
						s, e := fset.Position(x.Pos()).Offset, fset.Position(x.End()).Offset
						add(x.Pos(), string(src[s:e]), "", "delete-call")
					case *ast.AssignStmt:
						if x.Tok != token.DEFINE {
							s, e := fset.Position(x.Pos()).Offset, fset.Position(x.End()).Offset
							add(x.Pos(), string(src[s:e]), "", "delete-assign")
						}
					case *ast.BranchStmt:
						if x.Label == nil && (x.Tok == token.CONTINUE || x.Tok == token.BREAK) {
							add(x.Pos(), x.Tok.String(), "", "delete-branch")
						}
					case *ast.Ident:
						if x.Name == "true" {
							add(x.Pos(), "true", "false", "bool")
						} else if x.Name == "false" {
							add(x.Pos(), "false", "true", "bool")
						}
					case *ast.IncDecStmt:
						if x.Tok == token.INC {
							add(x.TokPos, "++", "--", "incdec")
						} else {
							add(x.TokPos, "--", "++", "incdec")
						}
					}
					return true
				})
			}
		}
	}
	enc := json.NewEncoder(os.Stdout)
	for _, m := range out {
		enc.Encode(m)
	}
	fmt.Fprintln(os.Stderr, len(out), "mutations")
}
