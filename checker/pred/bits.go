package pred

import (
	"fmt"
	"go/constant"
	"go/token"
	"go/types"
	"math/big"
	"strings"

	"golang.org/x/tools/go/ssa"
)

// Bit is one bit origin.
type Bit struct {
	K   byte   // '0', '1', 's' (symbol bit), 'T' (unknown)
	Sym string // for 's'
	Idx int
}

// Bits is an integer value as a vector of bit origins (B[0] = least significant).
type Bits struct {
	B      []Bit
	Signed bool
}

// Affine is X + C (mod 2^W) for a symbolic X.
type Affine struct {
	X Val
	C int64
	W int
}

// SliceV is a slice with known length whose elements live in cells.
// SliceV: a slice kept by value. Cut marks a re-slice that stops short of its operand's end (x[:k], k < len(x)):
// an append onto it writes into x's own elements when the capacity allows.
type SliceV struct {
	Elems []*Cell
	Cut   bool
}

func (s *SliceV) String() string {
	var p []string
	for _, c := range s.Elems {
		p = append(p, fmt.Sprint(c.V))
	}
	return "[" + strings.Join(p, ", ") + "]"
}

func (a Affine) String() string { return fmt.Sprintf("(%v%+d mod 2^%d)", a.X, a.C, a.W) }

func (b Bits) String() string {
	// compress runs: sym[hi:lo], consts
	var parts []string
	i := len(b.B) - 1
	for i >= 0 {
		bit := b.B[i]
		j := i
		switch bit.K {
		case 's':
			// run of the same source bit repeated (sign extension)
			for j-1 >= 0 && b.B[j-1] == bit {
				j--
			}
			if j < i {
				// keep the last copy for the descending run that may follow
				j++
				parts = append(parts, fmt.Sprintf("%s[%d]×%d", bit.Sym, bit.Idx, i-j+1))
				break
			}
			for j-1 >= 0 && b.B[j-1].K == 's' && b.B[j-1].Sym == bit.Sym && b.B[j-1].Idx == b.B[j].Idx-1 {
				j--
			}
			parts = append(parts, fmt.Sprintf("%s[%d:%d]", bit.Sym, bit.Idx, b.B[j].Idx))
		default:
			for j-1 >= 0 && b.B[j-1].K == bit.K {
				j--
			}
			parts = append(parts, fmt.Sprintf("%c×%d", bit.K, i-j+1))
		}
		i = j - 1
	}
	return "⟨" + strings.Join(parts, " ") + "⟩"
}

// SymBits returns a fresh symbolic integer of width w.
func SymBits(name string, w int, signed bool) Bits {
	b := Bits{B: make([]Bit, w), Signed: signed}
	for i := range b.B {
		b.B[i] = Bit{K: 's', Sym: name, Idx: i}
	}
	return b
}

func constBits(v constant.Value, w int, signed bool) Bits {
	b := Bits{B: make([]Bit, w), Signed: signed}
	// two's complement of v mod 2^w
	x := v
	if constant.Sign(x) < 0 {
		x = constant.BinaryOp(x, token.ADD, constant.Shift(constant.MakeInt64(1), token.SHL, uint(w)))
	}
	for i := 0; i < w; i++ {
		bit := constant.BinaryOp(constant.Shift(x, token.SHR, uint(i)), token.AND, constant.MakeInt64(1))
		if constant.Sign(bit) != 0 {
			b.B[i] = Bit{K: '1'}
		} else {
			b.B[i] = Bit{K: '0'}
		}
	}
	return b
}

// Known returns the constant value if all bits are constants.
func (b Bits) Known() (constant.Value, bool) {
	v := constant.MakeInt64(0)
	for i := len(b.B) - 1; i >= 0; i-- {
		v = constant.Shift(v, token.SHL, 1)
		switch b.B[i].K {
		case '1':
			v = constant.BinaryOp(v, token.OR, constant.MakeInt64(1))
		case '0':
		default:
			return nil, false
		}
	}
	return v, true
}

// bitCount models math/bits.LeadingZeros*/TrailingZeros*/Len* on a bit vector: the count of known zero bits from the
// respective end up to the first known one bit; if an unknown or symbolic bit comes first, the interval from the
// zeros seen so far to the position of the first known one (or the width).
func bitCount(name string, args []Val, fn *ssa.Function) (Val, bool) {
	if !strings.HasPrefix(name, "math/bits.") || len(args) != 1 || fn.Signature.Params().Len() != 1 {
		return nil, false
	}
	kind := strings.TrimRight(strings.TrimPrefix(name, "math/bits."), "0123456789")
	if kind != "LeadingZeros" && kind != "TrailingZeros" && kind != "Len" {
		return nil, false
	}
	b, ok := toBits(args[0], fn.Signature.Params().At(0).Type())
	if !ok {
		return nil, false
	}
	w := len(b.B)
	at := func(i int) Bit { // i-th bit from the counted end
		if kind == "TrailingZeros" {
			return b.B[i]
		}
		return b.B[w-1-i]
	}
	lo, hi := 0, w
	i := 0
	for i < w && at(i).K == '0' {
		i++
	}
	lo = i
	exact := i == w || at(i).K == '1'
	if !exact {
		for j := i; j < w; j++ {
			if at(j).K == '1' {
				hi = j
				break
			}
		}
	} else {
		hi = lo
	}
	if kind == "Len" {
		lo, hi = w-hi, w-lo
	}
	if lo == hi {
		return Const{constant.MakeInt64(int64(lo))}, true
	}
	return IntRange{Lo: int64(lo), Hi: int64(hi)}, true
}

// byteOrder models encoding/binary's fixed-width accessors on a modelled byte slice: PutUintN stores the N/8 octets
// of the value into the first cells of the slice, UintN reads them back, in the byte order of the receiver type.
func byteOrder(name string, args []Val) (Val, bool) {
	var big bool
	switch {
	case strings.HasPrefix(name, "(encoding/binary.bigEndian)."):
		big = true
	case strings.HasPrefix(name, "(encoding/binary.littleEndian)."):
	default:
		return nil, false
	}
	method := name[strings.LastIndex(name, ".")+1:]
	put := strings.HasPrefix(method, "PutUint")
	if !put && !strings.HasPrefix(method, "Uint") {
		return nil, false
	}
	var n int
	switch strings.TrimPrefix(strings.TrimPrefix(method, "Put"), "Uint") {
	case "16":
		n = 2
	case "32":
		n = 4
	case "64":
		n = 8
	default:
		return nil, false
	}
	if len(args) < 2 {
		return nil, false
	}
	sv, ok := args[1].(*SliceV)
	if !ok || len(sv.Elems) < n {
		return nil, false
	}
	octet := func(k int) int { // index of the cell that holds bits [8k+7:8k]
		if big {
			return n - 1 - k
		}
		return k
	}
	if put {
		if len(args) != 3 {
			return nil, false
		}
		var b Bits
		switch v := args[2].(type) {
		case Bits:
			b = v
		case Const:
			if v.V == nil || v.V.Kind() != constant.Int {
				return nil, false
			}
			b = constBits(v.V, 8*n, false)
		case Sym:
			symShape[v.Name] = symShapeT{8 * n, false}
			b = SymBits(v.Name, 8*n, false)
		case Affine:
			nm := v.String()
			symDefs[nm] = v
			b = SymBits(nm, 8*n, false)
		default:
			return nil, false
		}
		if len(b.B) != 8*n {
			return nil, false
		}
		for k := 0; k < n; k++ {
			sv.Elems[octet(k)].V = Bits{B: append([]Bit(nil), b.B[8*k:8*k+8]...)}
		}
		return Tuple{}, true
	}
	r := Bits{B: make([]Bit, 8*n)}
	for k := 0; k < n; k++ {
		var ob Bits
		switch v := sv.Elems[octet(k)].V.(type) {
		case Bits:
			ob = v
		case Const:
			if v.V == nil || v.V.Kind() != constant.Int {
				return nil, false
			}
			ob = constBits(v.V, 8, false)
		case Sym:
			symShape[v.Name] = symShapeT{8, false}
			ob = SymBits(v.Name, 8, false)
		default:
			return nil, false
		}
		if len(ob.B) != 8 {
			return nil, false
		}
		copy(r.B[8*k:], ob.B)
	}
	return r, true
}

// WordBits is the width of int, uint and uintptr on the analysed target (set by the loader from the type-checker's
// sizes: 32 under GOARCH=386).
var WordBits = 64

// wrapConst reduces an integer constant to the value range of integer type t (two's complement wrap-around of
// arithmetic, shifts and conversions).
func wrapConst(v Val, t types.Type) Val {
	c, ok := v.(Const)
	if !ok || c.V == nil || c.V.Kind() != constant.Int {
		return v
	}
	w, signed, ok := intInfo(t)
	if !ok {
		return v
	}
	n, ok := new(big.Int).SetString(c.V.ExactString(), 10)
	if !ok {
		return v
	}
	mod := new(big.Int).Lsh(big.NewInt(1), uint(w))
	n.Mod(n, mod) // Go's Mod is Euclidean: 0 <= n < mod
	if signed && n.Bit(w-1) == 1 {
		n.Sub(n, mod)
	}
	return Const{constant.Make(n)}
}

func intInfo(t types.Type) (w int, signed bool, ok bool) {
	b, isB := t.Underlying().(*types.Basic)
	if !isB || b.Info()&types.IsInteger == 0 {
		return 0, false, false
	}
	switch b.Kind() {
	case types.Int8:
		return 8, true, true
	case types.Int16:
		return 16, true, true
	case types.Int32:
		return 32, true, true
	case types.Int:
		return WordBits, true, true
	case types.Int64:
		return 64, true, true
	case types.Uint8:
		return 8, false, true
	case types.Uint16:
		return 16, false, true
	case types.Uint32:
		return 32, false, true
	case types.Uint, types.Uintptr:
		return WordBits, false, true
	case types.Uint64:
		return 64, false, true
	}
	return 0, false, false
}

// symDefs records definitions of materialised symbols: name -> Affine
var symDefs = map[string]Affine{}

// toBits converts a value to Bits of type t, materialising affine values as fresh symbols.
func toBits(v Val, t types.Type) (Bits, bool) {
	w, signed, ok := intInfo(t)
	if !ok {
		return Bits{}, false
	}
	switch x := v.(type) {
	case Bits:
		return x, true
	case Const:
		if x.V == nil || x.V.Kind() != constant.Int {
			return Bits{}, false
		}
		return constBits(x.V, w, signed), true
	case Sym:
		symShape[x.Name] = symShapeT{w, signed}
		return SymBits(x.Name, w, signed), true
	case Affine:
		name := x.String()
		symDefs[name] = x
		return SymBits(name, w, signed), true
	}
	return Bits{}, false
}

// symShape records the width and signedness a symbol was materialised with (the type of the program value it stands
// for): a run S[k:0] inside a larger vector is the whole value only if k+1 is that width.
type symShapeT struct {
	w      int
	signed bool
}

var symShape = map[string]symShapeT{}

// packedCmp orders two bit vectors that pack the same sequence of fields at the same positions (a sortable key such
// as year<<16 | month<<8 | day): the vectors are cut, from the most significant end, into aligned segments — equal
// constant runs, or a whole symbol on either side (preceded, for a signed symbol at the top of a signed vector, by
// its sign extension) — and the first segment ordered as different decides. Fields below the top must be unsigned
// (their raw bits order like their values). The fields are put to `ask` one by one; if a field is unknown to it, the
// whole key is put once, as lexkey(f1,…,fn) on either side (an oracle that orders composite values whose order is
// the lexicographic order of exactly these fields can answer that). ok=false: not of this form, or not known.
func packedCmp(x, y Bits, ask func(a, b Val) (int, bool)) (ord int, ok bool) {
	if len(x.B) != len(y.B) || x.Signed != y.Signed || len(x.B) == 0 {
		return 0, false
	}
	w := len(x.B)
	i := w - 1
	var fa, fb []Val
	for i >= 0 {
		a, b := x.B[i], y.B[i]
		switch {
		case (a.K == '0' || a.K == '1') && (b.K == '0' || b.K == '1'):
			if a.K != b.K {
				return 0, false // differing constants: not the same layout
			}
			i--
		case a.K == 's' && b.K == 's':
			sa, okA := symShape[a.Sym]
			sb, okB := symShape[b.Sym]
			if !okA || !okB || sa != sb || a.Idx != sa.w-1 || b.Idx != sb.w-1 {
				return 0, false
			}
			// sign extension: further copies of the symbol's top bit above the field itself
			j := i
			for j-1 >= 0 && x.B[j-1] == a && y.B[j-1] == b {
				j--
			}
			ext := i - j // copies above the field's own top bit
			lo := j - (sa.w - 1)
			if lo < 0 {
				return 0, false
			}
			fx := Bits{B: x.B[lo : lo+sa.w]}
			fy := Bits{B: y.B[lo : lo+sa.w]}
			if nx, ok := fx.wholeSym(); !ok || nx != a.Sym {
				return 0, false
			}
			if ny, ok := fy.wholeSym(); !ok || ny != b.Sym {
				return 0, false
			}
			atTop := i == w-1
			switch {
			case sa.signed && !(atTop && x.Signed):
				return 0, false // a signed field whose raw bits would be compared as unsigned
			case !sa.signed && ext > 0:
				return 0, false
			case !sa.signed && atTop && x.Signed:
				return 0, false // an unsigned field reaching the sign bit of a signed vector
			}
			fa = append(fa, Sym{a.Sym})
			fb = append(fb, Sym{b.Sym})
			i = lo - 1
		default:
			return 0, false
		}
	}
	if len(fa) == 0 {
		return 0, false
	}
	for k := range fa {
		r, known := ask(fa[k], fb[k])
		if !known {
			return ask(Term{Fn: "lexkey", Args: fa}, Term{Fn: "lexkey", Args: fb})
		}
		if r != 0 {
			return r, true
		}
	}
	return 0, true
}

// wholeSym reports whether b is exactly sym[w-1:0].
func (b Bits) wholeSym() (string, bool) {
	if len(b.B) == 0 || b.B[0].K != 's' {
		return "", false
	}
	for i, bit := range b.B {
		if bit.K != 's' || bit.Sym != b.B[0].Sym || bit.Idx != i {
			return "", false
		}
	}
	return b.B[0].Sym, true
}

func bitsBinop(op token.Token, x, y Val, t types.Type) (Val, bool) {
	w, signed, ok := intInfo(t)
	if !ok {
		return nil, false
	}
	// unsigned division and remainder by a power of two are the shift and the mask
	if (op == token.QUO || op == token.REM) && !signed {
		if cy, ok := y.(Const); ok && cy.V != nil && cy.V.Kind() == constant.Int {
			if c, exact := constant.Uint64Val(cy.V); exact && c != 0 && c&(c-1) == 0 {
				k := 0
				for c>>uint(k) != 1 {
					k++
				}
				if op == token.QUO {
					return bitsBinop(token.SHR, x, Const{constant.MakeInt64(int64(k))}, t)
				}
				return bitsBinop(token.AND, x, Const{constant.MakeUint64(c - 1)}, t)
			}
		}
	}
	switch op {
	case token.ADD, token.SUB:
		// a sum of bit vectors that share no position is their union (no carry can arise)
		if op == token.ADD {
			if bx, okx := exactBits(x, w, signed); okx {
				if by, oky := exactBits(y, w, signed); oky && len(bx.B) == len(by.B) && !(isConstVal(x) && isConstVal(y)) {
					disjoint, mixed := true, false
					for i := range bx.B {
						if bx.B[i].K != '0' && by.B[i].K != '0' {
							disjoint = false
						}
						if bx.B[i].K != '0' && bx.B[i].K != '1' || by.B[i].K != '0' && by.B[i].K != '1' {
							mixed = true
						}
					}
					if disjoint && mixed {
						return bitsBinop(token.OR, x, y, t)
					}
				}
			}
		}
		// const on the right (or left for ADD)
		if cy, ok := y.(Const); ok && cy.V != nil && cy.V.Kind() == constant.Int {
			c, _ := constant.Int64Val(cy.V)
			if op == token.SUB {
				c = -c
			}
			return addConst(x, c, w), true
		}
		if cx, ok := x.(Const); ok && op == token.ADD && cx.V != nil && cx.V.Kind() == constant.Int {
			c, _ := constant.Int64Val(cx.V)
			return addConst(y, c, w), true
		}
		return nil, false
	case token.SHL, token.SHR:
		cy, ok := y.(Const)
		if !ok || cy.V == nil {
			return nil, false
		}
		s64, _ := constant.Int64Val(cy.V)
		s := int(s64)
		bx, ok := toBits(x, t)
		if !ok {
			return nil, false
		}
		r := Bits{B: make([]Bit, w), Signed: signed}
		for i := 0; i < w; i++ {
			var src int
			if op == token.SHL {
				src = i - s
			} else {
				src = i + s
			}
			switch {
			case src < 0:
				r.B[i] = Bit{K: '0'}
			case src >= w:
				if op == token.SHR && signed {
					r.B[i] = bx.B[w-1]
				} else {
					r.B[i] = Bit{K: '0'}
				}
			default:
				r.B[i] = bx.B[src]
			}
		}
		return r, true
	case token.AND, token.OR, token.XOR, token.AND_NOT:
		bx, ok1 := toBits(x, t)
		by, ok2 := toBits(y, t)
		if !ok1 || !ok2 {
			return nil, false
		}
		r := Bits{B: make([]Bit, w), Signed: signed}
		for i := 0; i < w; i++ {
			a, b := bx.B[i], by.B[i]
			if op == token.AND_NOT {
				switch b.K {
				case '0':
					b = Bit{K: '1'}
				case '1':
					b = Bit{K: '0'}
				default:
					b = Bit{K: 'T'}
				}
			}
			switch op {
			case token.AND, token.AND_NOT:
				switch {
				case a.K == '0' || b.K == '0':
					r.B[i] = Bit{K: '0'}
				case a.K == '1':
					r.B[i] = b
				case b.K == '1':
					r.B[i] = a
				case a == b:
					r.B[i] = a
				default:
					r.B[i] = Bit{K: 'T'}
				}
			case token.OR:
				switch {
				case a.K == '1' || b.K == '1':
					r.B[i] = Bit{K: '1'}
				case a.K == '0':
					r.B[i] = b
				case b.K == '0':
					r.B[i] = a
				case a == b:
					r.B[i] = a
				default:
					r.B[i] = Bit{K: 'T'}
				}
			case token.XOR:
				switch {
				case a.K == '0':
					r.B[i] = b
				case b.K == '0':
					r.B[i] = a
				case a.K == '1' && b.K == '1':
					r.B[i] = Bit{K: '0'}
				default:
					r.B[i] = Bit{K: 'T'}
				}
			}
		}
		return r, true
	}
	return nil, false
}

func addConst(x Val, c int64, w int) Val {
	switch v := x.(type) {
	case Affine:
		return normAffine(Affine{X: v.X, C: v.C + c, W: w})
	case Bits:
		if k, ok := v.Known(); ok {
			return Const{constant.BinaryOp(k, token.ADD, constant.MakeInt64(c))}
		}
		if name, ok := v.wholeSym(); ok {
			if def, ok := symDefs[name]; ok && def.W == w {
				return normAffine(Affine{X: def.X, C: def.C + c, W: w})
			}
			return normAffine(Affine{X: Sym{name}, C: c, W: w})
		}
		return normAffine(Affine{X: v, C: c, W: w})
	}
	return normAffine(Affine{X: x, C: c, W: w})
}

func normAffine(a Affine) Val {
	mod := int64(1) << uint(a.W%64)
	if a.W < 64 {
		a.C = ((a.C % mod) + mod) % mod
		if a.C >= mod/2 {
			a.C -= mod
		}
	}
	if a.C == 0 {
		return a.X
	}
	return a
}

// convertInt converts integer value v from type 'from' to type 'to'.
func convertInt(v Val, from, to types.Type) (Val, bool) {
	wf, sf, ok1 := intInfo(from)
	wt, st, ok2 := intInfo(to)
	if !ok1 || !ok2 {
		return nil, false
	}
	if c, ok := v.(Const); ok {
		return wrapConst(c, to), true
	}
	if wf == wt {
		if b, ok := v.(Bits); ok {
			b.Signed = st
			return b, true
		}
		// same width, other signedness: the same bits, but no longer the same integer for half of the range — the value
		// is materialised as a bit vector of the new signedness (a symbol keeps the signedness of the program value it
		// stands for: see symShape), so that an ordering of the converted values is not mistaken for one of the originals
		if sf != st {
			switch v.(type) {
			case Sym, Affine:
				if b, ok := toBits(v, from); ok {
					b.Signed = st
					return b, true
				}
			}
		}
		return v, true // same width and signedness: Sym/Affine keep meaning modulo 2^w
	}
	b, ok := toBits(v, from)
	if !ok {
		return nil, false
	}
	r := Bits{B: make([]Bit, wt), Signed: st}
	for i := 0; i < wt; i++ {
		switch {
		case i < wf:
			r.B[i] = b.B[i]
		case sf:
			r.B[i] = b.B[wf-1]
		default:
			r.B[i] = Bit{K: '0'}
		}
	}
	return r, true
}

// AddConst returns x + c modulo 2^w in the affine domain (exported for building expected values).
func AddConst(x Val, c int64, w int) Val { return addConst(x, c, w) }

// IntWidth is the width in bits of integer type t on the analysed target.
func IntWidth(t types.Type) (int, bool) {
	w, _, ok := intInfo(t)
	return w, ok
}

// ConvertInt converts an abstract integer between Go integer types (exported for building expected values).
func ConvertInt(v Val, from, to types.Type) (Val, bool) { return convertInt(v, from, to) }

// Canon describes an abstract integer as root + c, where root is an opaque scalar (symbol or uninterpreted term),
// possibly truncated to its low `width` bits and then sign- or zero-extended. Conversions and ±const are folded
// in whatever order the code applied them; overflow at the narrow width is ignored (the two orders differ only
// there), which is stated by the rules that use it.
type CanonInt struct {
	Root  string
	C     int64
	Ext   string // "", "sext", "zext"
	Width int    // width of the narrowest truncation applied (0 = none)
}

func (c CanonInt) String() string {
	s := c.Root
	if c.C != 0 {
		s = fmt.Sprintf("%s%+d", s, c.C)
	}
	if c.Width != 0 {
		s = fmt.Sprintf("%s(%s mod 2^%d)", c.Ext, s, c.Width)
	}
	return s
}

// convWidth: t is conv[<integer type>](x): the width and signedness of the target type.
func convWidth(t Term) (int, bool, bool) {
	if len(t.Args) != 1 || !strings.HasPrefix(t.Fn, "conv[") || !strings.HasSuffix(t.Fn, "]") {
		return 0, false, false
	}
	switch t.Fn[len("conv[") : len(t.Fn)-1] {
	case "int8":
		return 8, true, true
	case "uint8", "byte":
		return 8, false, true
	case "int16":
		return 16, true, true
	case "uint16":
		return 16, false, true
	case "int32", "rune":
		return 32, true, true
	case "uint32":
		return 32, false, true
	case "int":
		return WordBits, true, true
	case "uint", "uintptr":
		return WordBits, false, true
	}
	return 0, false, false
}

// Canon computes the canonical form of v, ok=false if v is not of that shape.
func Canon(v Val) (CanonInt, bool) {
	switch x := v.(type) {
	case Sym:
		if def, ok := symDefs[x.Name]; ok {
			return Canon(def)
		}
		return CanonInt{Root: x.Name}, true
	case Term:
		// a narrowing conversion kept as an operator (conv[uint8](t)): t modulo 2^width
		if w, signed, isConv := convWidth(x); isConv {
			if c, ok := Canon(x.Args[0]); ok && c.C == 0 {
				if c.Width == 0 || w < c.Width {
					c.Width = w
					c.Ext = "zext"
					if signed {
						c.Ext = "sext"
					}
				}
				return c, true
			}
		}
		return CanonInt{Root: x.String()}, true
	case Affine:
		c, ok := Canon(x.X)
		if !ok {
			return CanonInt{}, false
		}
		c.C += x.C
		return c, true
	case Bits:
		if len(x.B) == 0 || x.B[0].K != 's' {
			return CanonInt{}, false
		}
		name := x.B[0].Sym
		k := 0
		for k < len(x.B) && x.B[k].K == 's' && x.B[k].Sym == name && x.B[k].Idx == k {
			k++
		}
		ext := ""
		if k < len(x.B) {
			allZero, allSign := true, true
			for _, b := range x.B[k:] {
				if b.K != '0' {
					allZero = false
				}
				if !(b.K == 's' && b.Sym == name && b.Idx == k-1) {
					allSign = false
				}
			}
			switch {
			case allZero:
				ext = "zext"
			case allSign:
				ext = "sext"
			default:
				return CanonInt{}, false
			}
		}
		c, ok := Canon(Sym{name})
		if !ok {
			return CanonInt{}, false
		}
		if c.Width == 0 || k < c.Width {
			if k < len(x.B) || c.Width == 0 {
				c.Width = k
			}
		}
		if ext != "" {
			c.Ext = ext
		}
		return c, true
	}
	return CanonInt{}, false
}

// SymDef returns the affine definition of a materialised symbol (a symbol standing for X+c mod 2^w).
func SymDef(name string) (Affine, bool) {
	a, ok := symDefs[name]
	return a, ok
}

// bitsRange: the unsigned value interval of a bit vector (symbol / unknown bits free).
func bitsRange(b Bits) (lo, hi *big.Int) {
	lo, hi = new(big.Int), new(big.Int)
	for i, bit := range b.B {
		switch bit.K {
		case '1':
			lo.SetBit(lo, i, 1)
			hi.SetBit(hi, i, 1)
		case '0':
		default:
			hi.SetBit(hi, i, 1)
		}
	}
	return
}

// bitsCmpConst decides `x op y` when one side is an unsigned bit vector and the other a constant and the vector's
// value interval lies entirely on one side.
func bitsCmpConst(op token.Token, x, y Val) (result, ok bool) {
	bx, isBx := x.(Bits)
	by, isBy := y.(Bits)
	cx, isCx := x.(Const)
	cy, isCy := y.(Const)
	var b Bits
	var c Const
	switch {
	case isBx && isCy:
		b, c = bx, cy
	case isBy && isCx:
		b, c = by, cx
		switch op { // mirror
		case token.LSS:
			op = token.GTR
		case token.LEQ:
			op = token.GEQ
		case token.GTR:
			op = token.LSS
		case token.GEQ:
			op = token.LEQ
		}
	default:
		return false, false
	}
	if b.Signed || c.V == nil || c.V.Kind() != constant.Int {
		return false, false
	}
	k, exact := new(big.Int).SetString(c.V.ExactString(), 10)
	if !exact {
		return false, false
	}
	lo, hi := bitsRange(b)
	switch op {
	case token.LSS:
		if hi.Cmp(k) < 0 {
			return true, true
		}
		if lo.Cmp(k) >= 0 {
			return false, true
		}
	case token.LEQ:
		if hi.Cmp(k) <= 0 {
			return true, true
		}
		if lo.Cmp(k) > 0 {
			return false, true
		}
	case token.GTR:
		if lo.Cmp(k) > 0 {
			return true, true
		}
		if hi.Cmp(k) <= 0 {
			return false, true
		}
	case token.GEQ:
		if lo.Cmp(k) >= 0 {
			return true, true
		}
		if hi.Cmp(k) < 0 {
			return false, true
		}
	case token.EQL, token.NEQ:
		if k.Cmp(lo) < 0 || k.Cmp(hi) > 0 {
			return op == token.NEQ, true
		}
		if lo.Cmp(hi) == 0 {
			return (op == token.EQL) == (lo.Cmp(k) == 0), true
		}
	}
	return false, false
}

// exactBits: v as a bit vector without approximation (a vector or an integer constant).
func exactBits(v Val, w int, signed bool) (Bits, bool) {
	switch x := v.(type) {
	case Bits:
		return x, true
	case Const:
		if x.V != nil && x.V.Kind() == constant.Int {
			return constBits(x.V, w, signed), true
		}
	}
	return Bits{}, false
}
