// Package pred: finite predicate-abstraction evaluator over go/ssa (prototype).
//
// A function is evaluated on *abstract* arguments (opaque symbols, symbolic
// structs). Every branch condition must be resolved either by constant folding
// or by the scenario's oracle; otherwise evaluation stops as Undecided.
package pred

import (
	"fmt"
	"go/constant"
	"go/token"
	"go/types"
	"math/bits"
	"sort"
	"strconv"
	"strings"

	"golang.org/x/tools/go/ssa"
	"unicode"
)

// ---------- abstract values ----------

type Val interface{ String() string }

type Const struct{ V constant.Value } // bool/int/string constants; nil V = untyped nil
type Sym struct{ Name string }        // opaque scalar or opaque struct
type StructV struct {
	T      *types.Struct
	Named  types.Type
	Fields []Val
}
type Ptr struct { // pointer to a memory cell, optionally into a field path
	Cell *Cell
	Path []int
}
type Cell struct {
	V    Val
	Name string
}
type Iface struct {
	Dyn types.Type
	V   Val
}
type Tuple []Val
type Term struct { // uninterpreted application
	Fn   string
	Args []Val
}
type Neg struct{ X Val }

// ElemPtr / Elem: address and value of element Index of an unmodelled sequence Base.
type ElemPtr struct{ Base, Index Val }
type Elem struct{ Base, Index Val }

func (e ElemPtr) String() string { return fmt.Sprintf("&%v[%v]", e.Base, e.Index) }
func (e Elem) String() string    { return fmt.Sprintf("%v[%v]", e.Base, e.Index) }

type Zero struct{ T types.Type } // zero value of some type we do not model further

// Closure is a function literal with its captured variables.
type Closure struct {
	Fn   *ssa.Function
	Free []Val
}

func (c Closure) String() string { return "closure:" + c.Fn.Name() }

func (c Const) String() string {
	if c.V == nil {
		return "nil"
	}
	return c.V.ExactString()
}
func (s Sym) String() string { return s.Name }
func (s *StructV) String() string {
	var parts []string
	for i, f := range s.Fields {
		parts = append(parts, fmt.Sprintf("%s:%v", s.T.Field(i).Name(), f))
	}
	n := ""
	if s.Named != nil {
		n = types.TypeString(s.Named, func(p *types.Package) string { return p.Name() })
	}
	return n + "{" + strings.Join(parts, ",") + "}"
}
func (p Ptr) String() string {
	if p.Cell == nil {
		return "nilptr"
	}
	return fmt.Sprintf("&%s%v", p.Cell.Name, p.Path)
}
func (i Iface) String() string {
	return fmt.Sprintf("iface(%s:%v)", types.TypeString(i.Dyn, func(p *types.Package) string { return p.Name() }), i.V)
}
func (t Tuple) String() string {
	var parts []string
	for _, v := range t {
		parts = append(parts, fmt.Sprint(v))
	}
	return "(" + strings.Join(parts, ", ") + ")"
}
func (t Term) String() string {
	var parts []string
	for _, v := range t.Args {
		parts = append(parts, fmt.Sprint(v))
	}
	return t.Fn + "(" + strings.Join(parts, ",") + ")"
}
func (n Neg) String() string  { return "-" + n.X.String() }
func (z Zero) String() string { return "zero(" + z.T.String() + ")" }

// ---------- oracle ----------

// Oracle resolves atomic predicates of a scenario.
type Oracle interface {
	// Cmp returns -1/0/+1 for the order of a vs b, ok=false if the scenario does not define it.
	Cmp(a, b Val) (int, bool)
}

// Summary replaces a callee by its specification.
// OpOracle is an Oracle that wants to know with which operator the pair is compared (an atom tabulated as
// equal / not equal must not be used to decide an ordering).
type OpOracle interface {
	CmpOp(op token.Token, a, b Val) (int, bool)
}

type Summary func(ev *Evaluator, args []Val) (Val, error)

type Undecided struct {
	Pos    token.Pos
	Reason string
}

func (u *Undecided) Error() string { return "undecided: " + u.Reason }

type Evaluator struct {
	Prog      *ssa.Program
	Oracle    Oracle
	Summaries map[string]Summary // key: fn.String() of origin
	MaxDepth  int
	Steps     int
	// Uses records every atomic predicate asked of the oracle (side-condition audit).
	Asked []string
	// Trace records every uninterpreted call (callee outside the module, dynamic callee, interface method on an
	// opaque receiver) in evaluation order.
	Trace []string
	// GlobalInit, when set, resolves a package-level variable ("pkg.name") to its initial value — used for literal
	// tables of constants that nothing writes after initialisation (the caller establishes that).
	GlobalInit func(name string) (Val, bool)
	depth      int
	ncell      int
	// pendingFree: captured values for the closure body about to be evaluated
	pendingFree []Val
	// Fallback, when set, may replace a function of the module that has no entry in Summaries (handled=false: evaluate
	// the body as usual)
	Fallback func(fn *ssa.Function, args []Val) (v Val, handled bool, err error)
}

type Outcome struct {
	Ret    Val // Tuple or single
	Panic  bool
	PanicV Val
}

func (ev *Evaluator) newCell(name string, v Val) *Cell {
	ev.ncell++
	return &Cell{V: v, Name: fmt.Sprintf("%s#%d", name, ev.ncell)}
}

func zeroOf(t types.Type) Val {
	switch u := t.Underlying().(type) {
	case *types.Basic:
		switch {
		case u.Info()&types.IsBoolean != 0:
			return Const{constant.MakeBool(false)}
		case u.Info()&types.IsInteger != 0:
			return Const{constant.MakeInt64(0)}
		case u.Info()&types.IsString != 0:
			return Const{constant.MakeString("")}
		case u.Info()&types.IsFloat != 0:
			return Const{constant.MakeFloat64(0)}
		}
	case *types.Pointer, *types.Interface, *types.Slice, *types.Map, *types.Signature, *types.Chan:
		return Const{nil}
	case *types.Struct:
		s := &StructV{T: u, Named: t, Fields: make([]Val, u.NumFields())}
		for i := range s.Fields {
			s.Fields[i] = zeroOf(u.Field(i).Type())
		}
		return s
	}
	return Zero{t}
}

func (ev *Evaluator) Eval(fn *ssa.Function, args []Val) (*Outcome, error) {
	if ev.MaxDepth == 0 {
		ev.MaxDepth = 10
	}
	ev.depth++
	defer func() { ev.depth-- }()
	if ev.depth > ev.MaxDepth {
		return nil, &Undecided{fn.Pos(), "inlining depth exceeded at " + fn.String()}
	}
	if len(fn.Blocks) == 0 {
		return nil, &Undecided{fn.Pos(), "no body: " + fn.String()}
	}
	if len(args) != len(fn.Params) {
		// a rule built its scenario for another signature (the function was given more or fewer parameters)
		return nil, &Undecided{fn.Pos(), fmt.Sprintf("%s has %d parameter(s), the scenario supplies %d", fn.String(), len(fn.Params), len(args))}
	}
	env := map[ssa.Value]Val{}
	for i, p := range fn.Params {
		env[p] = args[i]
	}
	if free := ev.pendingFree; free != nil {
		ev.pendingFree = nil
		for i, fv := range fn.FreeVars {
			if i < len(free) {
				env[fv] = free[i]
			}
		}
	}
	var prev *ssa.BasicBlock
	b := fn.Blocks[0]
	for {
		// phis
		var phiVals []Val
		var phis []*ssa.Phi
		for _, in := range b.Instrs {
			ph, ok := in.(*ssa.Phi)
			if !ok {
				break
			}
			idx := -1
			for i, p := range b.Preds {
				if p == prev {
					idx = i
				}
			}
			v, err := ev.val(env, ph.Edges[idx])
			if err != nil {
				return nil, err
			}
			phis = append(phis, ph)
			phiVals = append(phiVals, v)
		}
		for i, ph := range phis {
			env[ph] = phiVals[i]
		}
		var next *ssa.BasicBlock
		for _, in := range b.Instrs[len(phis):] {
			ev.Steps++
			if ev.Steps > 100000 {
				return nil, &Undecided{in.Pos(), "step limit"}
			}
			switch in := in.(type) {
			case *ssa.If:
				c, err := ev.val(env, in.Cond)
				if err != nil {
					return nil, err
				}
				cb, ok := c.(Const)
				if !ok || cb.V == nil || cb.V.Kind() != constant.Bool {
					// uninterpreted boolean (result of a call outside the module, package-level switch): an atom of the scenario
					_, isTerm := c.(Term)
					_, isSym := c.(Sym)
					if isTerm || isSym {
						if ord, known := ev.Oracle.Cmp(c, Const{constant.MakeBool(true)}); known {
							ev.Asked = append(ev.Asked, fmt.Sprintf("%v", c))
							cb, ok = Const{constant.MakeBool(ord == 0)}, true
						}
					}
				}
				if !ok || cb.V == nil || cb.V.Kind() != constant.Bool {
					return nil, &Undecided{in.Pos(), fmt.Sprintf("branch on non-atomic condition %v in %s", c, fn)}
				}
				if constant.BoolVal(cb.V) {
					next = b.Succs[0]
				} else {
					next = b.Succs[1]
				}
			case *ssa.Jump:
				next = b.Succs[0]
			case *ssa.Return:
				var rs Tuple
				for _, r := range in.Results {
					v, err := ev.val(env, r)
					if err != nil {
						return nil, err
					}
					rs = append(rs, v)
				}
				if len(rs) == 1 {
					return &Outcome{Ret: rs[0]}, nil
				}
				return &Outcome{Ret: rs}, nil
			case *ssa.Panic:
				v, _ := ev.val(env, in.X)
				return &Outcome{Panic: true, PanicV: v}, nil
			case *ssa.Store:
				a, err := ev.val(env, in.Addr)
				if err != nil {
					return nil, err
				}
				v, err := ev.val(env, in.Val)
				if err != nil {
					return nil, err
				}
				if err := ev.store(a, v, in.Pos()); err != nil {
					return nil, err
				}
			case *ssa.DebugRef, *ssa.RunDefers:
			case *ssa.Defer:
				// deferred calls are not modelled; only mutex releases are accepted silently
				if f := in.Call.StaticCallee(); f == nil || !(f.String() == "(*sync.Mutex).Unlock" || f.String() == "(*sync.RWMutex).Unlock" || f.String() == "(*sync.RWMutex).RUnlock") {
					return nil, &Undecided{in.Pos(), "deferred call other than a mutex release in " + fn.String()}
				}
			case ssa.Value:
				v, err := ev.instr(env, in)
				if err != nil {
					// a callee of the module panicked: no modelled function recovers (the only deferred calls accepted are
					// mutex releases), so the caller panics with the same value
					if p, ok := err.(*panicked); ok {
						return &Outcome{Panic: true, PanicV: p.V}, nil
					}
					return nil, err
				}
				env[in] = v
			default:
				return nil, &Undecided{in.Pos(), fmt.Sprintf("unsupported instruction %T in %s", in, fn)}
			}
			if next != nil {
				break
			}
		}
		if next == nil {
			return nil, &Undecided{fn.Pos(), "fell off block"}
		}
		prev, b = b, next
	}
}

func (ev *Evaluator) val(env map[ssa.Value]Val, v ssa.Value) (Val, error) {
	switch v := v.(type) {
	case *ssa.Const:
		if v.Value == nil {
			if _, ok := v.Type().Underlying().(*types.Struct); ok {
				return zeroOf(v.Type()), nil
			}
			if at, ok := v.Type().Underlying().(*types.Array); ok {
				return &ArrayV{Elems: map[int64]*Cell{}, Len: at.Len(), ElemT: at.Elem()}, nil
			}
			if b, ok := v.Type().Underlying().(*types.Basic); ok && b.Kind() != types.UntypedNil {
				return zeroOf(v.Type()), nil
			}
			return Const{nil}, nil
		}
		return Const{v.Value}, nil
	case *ssa.Global:
		return Sym{"&" + v.Pkg.Pkg.Name() + "." + v.Name()}, nil
	case *ssa.Function:
		return Sym{"func:" + v.String()}, nil
	}
	if x, ok := env[v]; ok {
		return x, nil
	}
	return nil, &Undecided{v.Pos(), fmt.Sprintf("unbound value %s (%T)", v.Name(), v)}
}

func (ev *Evaluator) load(a Val, pos token.Pos) (Val, error) {
	switch p := a.(type) {
	case ElemPtr:
		// an element of a package-level literal table selected by a few bits of a tracked vector: if every index the
		// unknown bits allow holds the same constant, that constant
		if g, ok := p.Base.(Sym); ok && strings.HasPrefix(g.Name, "&") && ev.GlobalInit != nil {
			if bits, ok := p.Index.(Bits); ok {
				if tv, ok := ev.GlobalInit(g.Name[1:]); ok {
					var elems func(i int64) (Val, bool)
					switch t := tv.(type) {
					case *ArrayV:
						elems = func(i int64) (Val, bool) {
							if c := t.Elems[i]; c != nil {
								return c.V, true
							}
							return nil, false
						}
					case *SliceV:
						elems = func(i int64) (Val, bool) {
							if i >= 0 && i < int64(len(t.Elems)) {
								return t.Elems[i].V, true
							}
							return nil, false
						}
					}
					var unknown []int
					base := int64(0)
					okBits := elems != nil
					for i, b := range bits.B {
						switch b.K {
						case '1':
							if i < 62 {
								base |= 1 << uint(i)
							} else {
								okBits = false
							}
						case '0':
						default:
							unknown = append(unknown, i)
						}
					}
					if okBits && len(unknown) <= 4 {
						var common Val
						same := true
						for m := 0; m < 1<<uint(len(unknown)) && same; m++ {
							idx := base
							for k, bi := range unknown {
								if m>>uint(k)&1 == 1 {
									idx |= 1 << uint(bi)
								}
							}
							v, ok := elems(idx)
							if !ok {
								same = false
								break
							}
							if common == nil {
								common = v
							} else if common.String() != v.String() {
								same = false
							}
						}
						if same && common != nil {
							return common, nil
						}
					}
				}
			}
		}
		// an array-typed table indexed through its address (&table[i]): the element of the table's value, spelled as for
		// a slice-typed table (*table[i])
		if g, ok := p.Base.(Sym); ok && strings.HasPrefix(g.Name, "&") {
			return Elem{Base: Sym{Name: "*" + g.Name[1:]}, Index: p.Index}, nil
		}
		return Elem{Base: p.Base, Index: p.Index}, nil
	case Ptr:
		if p.Cell == nil {
			return nil, &Undecided{pos, "nil dereference"}
		}
		v := p.Cell.V
		for _, i := range p.Path {
			s, ok := v.(*StructV)
			if !ok {
				if sym, ok := v.(Sym); ok {
					// field of opaque struct: derived symbol
					v = Sym{fmt.Sprintf("%s.#%d", sym.Name, i)}
					continue
				}
				if t, ok := v.(Term); ok {
					// field of an uninterpreted struct value
					v = Term{Fn: fmt.Sprintf("field#%d", i), Args: []Val{t}}
					continue
				}
				return nil, &Undecided{pos, fmt.Sprintf("field path into %v", v)}
			}
			v = s.Fields[i]
		}
		return v, nil
	case Sym:
		if strings.HasPrefix(p.Name, "&") { // global
			if ev.GlobalInit != nil {
				if v, ok := ev.GlobalInit(p.Name[1:]); ok {
					return v, nil
				}
			}
			return Sym{"*" + p.Name[1:]}, nil
		}
		return Sym{"*" + p.Name}, nil
	}
	return nil, &Undecided{pos, fmt.Sprintf("load from %v", a)}
}

func (ev *Evaluator) store(a, v Val, pos token.Pos) error {
	p, ok := a.(Ptr)
	if !ok || p.Cell == nil {
		return &Undecided{pos, fmt.Sprintf("store to %v", a)}
	}
	if len(p.Path) == 0 {
		p.Cell.V = copyVal(v)
		return nil
	}
	cur := p.Cell.V
	for k, i := range p.Path {
		s, ok := cur.(*StructV)
		if !ok {
			return &Undecided{pos, fmt.Sprintf("store into field of %v", cur)}
		}
		if k == len(p.Path)-1 {
			s.Fields[i] = copyVal(v)
			return nil
		}
		cur = s.Fields[i]
	}
	return nil
}

func copyVal(v Val) Val {
	if a, ok := v.(*ArrayV); ok {
		c := &ArrayV{Elems: map[int64]*Cell{}, Len: a.Len, ElemT: a.ElemT}
		for i, cell := range a.Elems {
			c.Elems[i] = &Cell{V: copyVal(cell.V), Name: cell.Name}
		}
		return c
	}
	if s, ok := v.(*StructV); ok {
		c := &StructV{T: s.T, Named: s.Named, Fields: make([]Val, len(s.Fields))}
		for i, f := range s.Fields {
			c.Fields[i] = copyVal(f)
		}
		return c
	}
	return v
}

func (ev *Evaluator) instr(env map[ssa.Value]Val, in ssa.Value) (Val, error) {
	switch in := in.(type) {
	case *ssa.Alloc:
		t := in.Type().Underlying().(*types.Pointer).Elem()
		if at, ok := t.Underlying().(*types.Array); ok {
			return Ptr{Cell: ev.newCell(in.Comment, &ArrayV{Elems: map[int64]*Cell{}, Len: at.Len(), ElemT: at.Elem()})}, nil
		}
		return Ptr{Cell: ev.newCell(in.Comment, zeroOf(t))}, nil
	case *ssa.FieldAddr:
		x, err := ev.val(env, in.X)
		if err != nil {
			return nil, err
		}
		p, ok := x.(Ptr)
		if !ok || p.Cell == nil {
			return nil, &Undecided{in.Pos(), fmt.Sprintf("fieldaddr of %v", x)}
		}
		return Ptr{Cell: p.Cell, Path: append(append([]int{}, p.Path...), in.Field)}, nil
	case *ssa.Field:
		x, err := ev.val(env, in.X)
		if err != nil {
			return nil, err
		}
		switch s := x.(type) {
		case *StructV:
			return s.Fields[in.Field], nil
		case Sym:
			return Sym{fmt.Sprintf("%s.#%d", s.Name, in.Field)}, nil
		case Term:
			return Term{Fn: fmt.Sprintf("field#%d", in.Field), Args: []Val{s}}, nil
		}
		return nil, &Undecided{in.Pos(), fmt.Sprintf("field of %v", x)}
	case *ssa.UnOp:
		x, err := ev.val(env, in.X)
		if err != nil {
			return nil, err
		}
		switch in.Op {
		case token.MUL:
			return ev.load(x, in.Pos())
		case token.NOT:
			if c, ok := x.(Const); ok && c.V != nil && c.V.Kind() == constant.Bool {
				return Const{constant.MakeBool(!constant.BoolVal(c.V))}, nil
			}
			// opaque boolean (package-level switch, uninterpreted call): an atom of the scenario
			if ord, known := ev.Oracle.Cmp(x, Const{constant.MakeBool(true)}); known {
				ev.Asked = append(ev.Asked, fmt.Sprintf("%v", x))
				return Const{constant.MakeBool(ord != 0)}, nil
			}
		case token.SUB:
			if c, ok := x.(Const); ok && c.V != nil {
				return Const{constant.UnaryOp(token.SUB, c.V, 0)}, nil
			}
			if n, ok := x.(Neg); ok {
				return n.X, nil
			}
			return Neg{x}, nil
		case token.XOR:
			// bitwise complement: known bits flip, a symbolic bit becomes unknown
			if c, ok := x.(Const); ok && c.V != nil && c.V.Kind() == constant.Int {
				return wrapConst(Const{constant.BinaryOp(constant.UnaryOp(token.SUB, c.V, 0), token.SUB, constant.MakeInt64(1))}, in.Type()), nil
			}
			if b, ok := toBits(x, in.Type()); ok {
				r := Bits{B: make([]Bit, len(b.B)), Signed: b.Signed}
				for i, bit := range b.B {
					switch bit.K {
					case '0':
						r.B[i] = Bit{K: '1'}
					case '1':
						r.B[i] = Bit{K: '0'}
					default:
						r.B[i] = Bit{K: 'T'}
					}
				}
				return r, nil
			}
		}
		return nil, &Undecided{in.Pos(), fmt.Sprintf("unop %s on %v", in.Op, x)}
	case *ssa.BinOp:
		x, err := ev.val(env, in.X)
		if err != nil {
			return nil, err
		}
		y, err := ev.val(env, in.Y)
		if err != nil {
			return nil, err
		}
		_, cx := x.(Const)
		_, cy := y.(Const)
		if !(cx && cy) {
			if r, ok := bitsBinop(in.Op, x, y, in.X.Type()); ok {
				return r, nil
			}
			// comparisons of known bit-vectors
			if bx, ok := x.(Bits); ok {
				if k, ok := bx.Known(); ok {
					x = Const{k}
				} else if c, ok := y.(Const); ok && c.V != nil && constant.Sign(c.V) == 0 && (in.Op == token.EQL || in.Op == token.NEQ) {
					for _, b := range bx.B {
						if b.K == '1' {
							return Const{constant.MakeBool(in.Op == token.NEQ)}, nil
						}
					}
				}
			}
		}
		r, err := ev.binop(in.Op, x, y, in.Pos())
		if err == nil {
			switch in.Op {
			case token.ADD, token.SUB, token.MUL, token.SHL, token.SHR, token.AND, token.OR, token.XOR, token.AND_NOT:
				r = wrapConst(r, in.Type())
			}
		}
		return r, err
	case *ssa.Phi:
		return nil, &Undecided{in.Pos(), "phi out of place"}
	case *ssa.Extract:
		t, err := ev.val(env, in.Tuple)
		if err != nil {
			return nil, err
		}
		switch tt := t.(type) {
		case Tuple:
			return tt[in.Index], nil
		case Term:
			return Term{Fn: fmt.Sprintf("%s#%d", tt.Fn, in.Index), Args: tt.Args}, nil
		}
		return nil, &Undecided{in.Pos(), fmt.Sprintf("extract from %v", t)}
	case *ssa.MakeInterface:
		x, err := ev.val(env, in.X)
		if err != nil {
			return nil, err
		}
		return Iface{Dyn: in.X.Type(), V: x}, nil
	case *ssa.ChangeInterface:
		return ev.val(env, in.X)
	case *ssa.ChangeType:
		return ev.val(env, in.X)
	case *ssa.Convert:
		x, err := ev.val(env, in.X)
		if err != nil {
			return nil, err
		}
		if r, ok := convertInt(x, in.X.Type(), in.Type()); ok {
			return r, nil
		}
		if (isFloat(in.Type()) || isFloat(in.X.Type())) && !isConstVal(x) {
			return Term{Fn: "conv[" + types.TypeString(in.Type(), nil) + "]", Args: []Val{x}}, nil
		}
		// an integer narrowed to fewer bits (int16(n), uint32(lo)) is not the same number: on a value the bit-vector
		// domain does not track (a call's result, a quotient) the conversion stays visible as an operator
		if NarrowingInt(in.X.Type(), in.Type()) && !isConstVal(x) {
			return Term{Fn: "conv[" + types.TypeString(in.Type().Underlying(), nil) + "]", Args: []Val{x}}, nil
		}
		return x, nil // string/[]byte/named-type conversions: value-preserving for our symbolic purposes
	case *ssa.MultiConvert:
		x, err := ev.val(env, in.X)
		if err != nil {
			return nil, err
		}
		// byte-sequence type parameters (string <-> []byte): content and length preserving, passed through;
		// numeric type parameters: the conversion may round or truncate, kept as an uninterpreted operator
		if isNumericish(in.Type()) || isNumericish(in.X.Type()) {
			if _, isConst := x.(Const); isConst {
				return x, nil // constants are converted exactly or the program would not compile
			}
			return Term{Fn: "conv[" + types.TypeString(in.Type(), nil) + "]", Args: []Val{x}}, nil
		}
		return x, nil
	case *ssa.TypeAssert:
		x, err := ev.val(env, in.X)
		if err != nil {
			return nil, err
		}
		if i, ok := x.(Iface); ok {
			match := types.Identical(i.Dyn, in.AssertedType)
			if in.CommaOk {
				if match {
					return Tuple{i.V, Const{constant.MakeBool(true)}}, nil
				}
				return Tuple{zeroOf(in.AssertedType), Const{constant.MakeBool(false)}}, nil
			}
			if match {
				return i.V, nil
			}
			return nil, &Undecided{in.Pos(), "failing type assertion"}
		}
		// the nil interface holds no type: a comma-ok assertion fails, a plain one panics
		if c, ok := x.(Const); ok && c.V == nil {
			if _, isIface := in.X.Type().Underlying().(*types.Interface); isIface {
				if in.CommaOk {
					return Tuple{zeroOf(in.AssertedType), Const{constant.MakeBool(false)}}, nil
				}
				return nil, &Undecided{in.Pos(), "type assertion on a nil interface (panics)"}
			}
		}
		return nil, &Undecided{in.Pos(), fmt.Sprintf("typeassert on %v", x)}
	case *ssa.Slice:
		x, err := ev.val(env, in.X)
		if err != nil {
			return nil, err
		}
		// constant bounds (absent = 0 / length) of a local array or of a modelled slice: a view sharing the cells
		bound := func(v ssa.Value, dflt int64) (int64, bool) {
			if v == nil {
				return dflt, true
			}
			y, err := ev.val(env, v)
			if err != nil {
				return 0, false
			}
			c, ok := y.(Const)
			if !ok || c.V == nil || c.V.Kind() != constant.Int {
				return 0, false
			}
			return constant.Int64Val(c.V)
		}
		if p, ok := x.(Ptr); ok && p.Cell != nil && len(p.Path) == 0 {
			if arr, ok := p.Cell.V.(*ArrayV); ok && arr.Len > 0 && arr.Len <= 4096 {
				lo, ok1 := bound(in.Low, 0)
				hi, ok2 := bound(in.High, arr.Len)
				if ok1 && ok2 && 0 <= lo && lo <= hi && hi <= arr.Len {
					sv := &SliceV{}
					for i := lo; i < hi; i++ {
						if arr.Elems[i] == nil {
							var zero Val = Const{nil}
							if arr.ElemT != nil {
								zero = zeroOf(arr.ElemT)
							}
							arr.Elems[i] = ev.newCell("elem", zero)
						}
						sv.Elems = append(sv.Elems, arr.Elems[i])
					}
					return sv, nil
				}
			}
		}
		if sv, ok := x.(*SliceV); ok && (in.Low != nil || in.High != nil) {
			lo, ok1 := bound(in.Low, 0)
			hi, ok2 := bound(in.High, int64(len(sv.Elems)))
			if ok1 && ok2 && 0 <= lo && lo <= hi && hi <= int64(len(sv.Elems)) {
				return &SliceV{Elems: sv.Elems[lo:hi], Cut: hi < int64(len(sv.Elems))}, nil
			}
		}
		// subject[loc[2k]:loc[2k+1]] with loc the offset vector of a match on the same subject: capture k of the
		// sub-slice form (that the group took part in the match is the index obligation of the slice)
		if in.Low != nil && in.High != nil && in.Max == nil {
			lo, err1 := ev.val(env, in.Low)
			hi, err2 := ev.val(env, in.High)
			if err1 == nil && err2 == nil {
				o1, ok1 := offsetOf(lo)
				o2, ok2 := offsetOf(hi)
				if ok1 && ok2 && !o1.End && o2.End && o1.Cap.String() == o2.Cap.String() && (o1.Subj == nil || sameSubject(o1.Subj, x)) {
					return o1.Cap, nil
				}
			}
		}
		// keep the bounds in the operator name: slice[lo:hi](x)
		b := func(v ssa.Value) string {
			if v == nil {
				return ""
			}
			y, err := ev.val(env, v)
			if err != nil {
				return "?"
			}
			return y.String()
		}
		// a constant string with constant bounds: the substring
		if cs, ok := x.(Const); ok && cs.V != nil && cs.V.Kind() == constant.String {
			str := constant.StringVal(cs.V)
			lo, ok1 := bound(in.Low, 0)
			hi, ok2 := bound(in.High, int64(len(str)))
			if ok1 && ok2 && 0 <= lo && lo <= hi && hi <= int64(len(str)) {
				return Const{constant.MakeString(str[lo:hi])}, nil
			}
		}
		if in.Low == nil && in.High == nil {
			return Term{Fn: "slice", Args: []Val{x}}, nil
		}
		// x[:len(x)] and x[0:len(x)] (with or without a capacity bound) hold the elements of x: as contents, x itself
		if _, isSlice := in.X.Type().Underlying().(*types.Slice); isSlice || isStringType(in.X.Type()) {
			if lo, hi := b(in.Low), b(in.High); (lo == "" || lo == "0") && hi == "len("+x.String()+")" {
				if _, opaque := x.(Sym); opaque {
					return x, nil
				}
			}
		}
		return Term{Fn: "slice[" + b(in.Low) + ":" + b(in.High) + "]", Args: []Val{x}}, nil
	case *ssa.IndexAddr:
		x, err := ev.val(env, in.X)
		if err != nil {
			return nil, err
		}
		idx, err := ev.val(env, in.Index)
		if err != nil {
			return nil, err
		}
		if cs, ok := x.(Const); ok && cs.V != nil && cs.V.Kind() == constant.String {
			if c, ok := idx.(Const); ok && c.V != nil {
				str := constant.StringVal(cs.V)
				i, _ := constant.Int64Val(c.V)
				if i < 0 || i >= int64(len(str)) {
					return nil, &Undecided{in.Pos(), "index out of range on constant string"}
				}
				return Ptr{Cell: ev.newCell("strbyte", Const{constant.MakeInt64(int64(str[i]))})}, nil
			}
		}
		if sv, ok := x.(*SliceV); ok {
			if c, ok := idx.(Const); ok {
				i, _ := constant.Int64Val(c.V)
				if i < 0 || i >= int64(len(sv.Elems)) {
					return nil, &Undecided{in.Pos(), "index out of range on modelled slice"}
				}
				return Ptr{Cell: sv.Elems[i]}, nil
			}
		}
		// element of a package-level array table
		if g, ok := x.(Sym); ok && strings.HasPrefix(g.Name, "&") && ev.GlobalInit != nil {
			if v, ok := ev.GlobalInit(g.Name[1:]); ok {
				if av, ok := v.(*ArrayV); ok {
					if c, ok := idx.(Const); ok && c.V != nil {
						if i, exact := constant.Int64Val(c.V); exact && av.Elems[i] != nil {
							return Ptr{Cell: av.Elems[i]}, nil
						}
					}
				}
			}
		}
		// model arrays allocated locally (varargs) as cells per index
		if p, ok := x.(Ptr); ok && p.Cell != nil {
			if c, ok := idx.(Const); ok {
				arr, ok := p.Cell.V.(*ArrayV)
				if !ok {
					arr = &ArrayV{Elems: map[int64]*Cell{}}
					p.Cell.V = arr
				}
				_ = arr.Len
				i, _ := constant.Int64Val(c.V)
				if arr.Elems[i] == nil {
					var zero Val = Const{nil}
					if arr.ElemT != nil {
						zero = zeroOf(arr.ElemT)
					}
					arr.Elems[i] = ev.newCell("elem", zero)
				}
				return Ptr{Cell: arr.Elems[i]}, nil
			}
		}
		x, idx = rebaseSlice(x, idx)
		return ElemPtr{Base: x, Index: idx}, nil
	case *ssa.SliceToArrayPointer:
		// (*[N]T)(s): the same elements seen as an array (the length test is the index obligation of the conversion)
		return ev.val(env, in.X)
	case *ssa.MakeClosure:
		f, ok := in.Fn.(*ssa.Function)
		if !ok {
			return nil, &Undecided{in.Pos(), "closure over a non-function"}
		}
		c := Closure{Fn: f}
		for _, b := range in.Bindings {
			v, err := ev.val(env, b)
			if err != nil {
				return nil, err
			}
			c.Free = append(c.Free, v)
		}
		return c, nil
	case *ssa.Call:
		return ev.call(env, in)
	case *ssa.Index:
		x, err := ev.val(env, in.X)
		if err != nil {
			return nil, err
		}
		idx, err := ev.val(env, in.Index)
		if err != nil {
			return nil, err
		}
		if cs, ok := x.(Const); ok && cs.V != nil && cs.V.Kind() == constant.String {
			if c, ok := idx.(Const); ok && c.V != nil {
				str := constant.StringVal(cs.V)
				if i, _ := constant.Int64Val(c.V); i >= 0 && i < int64(len(str)) {
					return Const{constant.MakeInt64(int64(str[i]))}, nil
				}
			}
		}
		// element of a modelled slice / string with a constant index
		if sv, ok := x.(*SliceV); ok {
			if c, ok := idx.(Const); ok && c.V != nil {
				if i, exact := constant.Int64Val(c.V); exact && i >= 0 && i < int64(len(sv.Elems)) {
					return sv.Elems[i].V, nil
				}
			}
		}
		// element of an array value with a constant index
		if av, ok := x.(*ArrayV); ok {
			if c, ok := idx.(Const); ok && c.V != nil {
				if i, exact := constant.Int64Val(c.V); exact {
					if cell := av.Elems[i]; cell != nil {
						return cell.V, nil
					}
				}
			}
		}
		x, idx = rebaseSlice(x, idx)
		return Elem{Base: x, Index: idx}, nil
	case *ssa.MakeSlice:
		// make([]T, 0, cap): a fresh empty sequence; any other length: that many zero elements, kept as a term
		l, err := ev.val(env, in.Len)
		if err != nil {
			return nil, err
		}
		if c, ok := l.(Const); ok && c.V != nil && c.V.Kind() == constant.Int && constant.Sign(c.V) == 0 {
			return Sym{"make"}, nil
		}
		return Term{Fn: "make", Args: []Val{l}}, nil
	case *ssa.Lookup:
		x, err := ev.val(env, in.X)
		if err != nil {
			return nil, err
		}
		k, err := ev.val(env, in.Index)
		if err != nil {
			return nil, err
		}
		// a constant key looked up in a package-level map literal that nothing writes after initialisation
		if g, ok := x.(Sym); ok && strings.HasPrefix(g.Name, "*") && ev.GlobalInit != nil {
			if kc, ok := k.(Const); ok && kc.V != nil {
				if mv, ok := ev.GlobalInit(g.Name[1:] + "#map"); ok {
					if m, ok := mv.(*MapV); ok {
						v, found := m.Entries[kc.V.ExactString()]
						if !found {
							v = zeroOf(m.ElemT)
						}
						if in.CommaOk {
							return Tuple{v, Const{constant.MakeBool(found)}}, nil
						}
						return v, nil
					}
				}
			}
		}
		if in.CommaOk {
			return Tuple{Term{Fn: "lookup#0", Args: []Val{x, k}}, Term{Fn: "lookup#1", Args: []Val{x, k}}}, nil
		}
		return Term{Fn: "lookup", Args: []Val{x, k}}, nil
	}
	return nil, &Undecided{in.Pos(), fmt.Sprintf("unsupported value %T", in)}
}

// MapV is the content of a package-level map literal with constant keys (keyed by the key's exact string).
type MapV struct {
	Name    string
	Entries map[string]Val
	ElemT   types.Type
}

func (m *MapV) String() string { return "*" + m.Name }

type ArrayV struct {
	Elems map[int64]*Cell
	Len   int64
	ElemT types.Type // element type when known: untouched elements read as its zero value
}

func (a *ArrayV) String() string {
	var parts []string
	for i := int64(0); i < int64(len(a.Elems)); i++ {
		if c := a.Elems[i]; c != nil {
			parts = append(parts, fmt.Sprint(c.V))
		}
	}
	return "[" + strings.Join(parts, ",") + "]"
}

func (ev *Evaluator) binop(op token.Token, x, y Val, pos token.Pos) (Val, error) {
	cx, okx := x.(Const)
	cy, oky := y.(Const)
	isCmp := op == token.EQL || op == token.NEQ || op == token.LSS || op == token.LEQ || op == token.GTR || op == token.GEQ
	if okx && oky {
		if cx.V == nil || cy.V == nil { // nil comparisons
			eq := cx.V == nil && cy.V == nil
			switch op {
			case token.EQL:
				return Const{constant.MakeBool(eq)}, nil
			case token.NEQ:
				return Const{constant.MakeBool(!eq)}, nil
			}
			return nil, &Undecided{pos, "nil arithmetic"}
		}
		if isCmp {
			// operands of different constant kinds (an argument of the wrong type handed in by a rule): undecided, not a panic
			kx, ky := cx.V.Kind(), cy.V.Kind()
			num := func(k constant.Kind) bool { return k == constant.Int || k == constant.Float }
			if kx != ky && !(num(kx) && num(ky)) {
				return nil, &Undecided{pos, fmt.Sprintf("comparison of constants of different kinds: %v %s %v", cx, op, cy)}
			}
			if (kx == constant.Bool || kx == constant.String && false) && op != token.EQL && op != token.NEQ {
				return nil, &Undecided{pos, "ordering comparison of booleans"}
			}
			return Const{constant.MakeBool(constant.Compare(cx.V, op, cy.V))}, nil
		}
		if op == token.SHL || op == token.SHR {
			s, _ := constant.Uint64Val(cy.V)
			return Const{constant.Shift(cx.V, op, uint(s))}, nil
		}
		return Const{constant.BinaryOp(cx.V, op, cy.V)}, nil
	}
	if isCmp && okx && !oky {
		// constant on the left (`0 == x`, `0 < len(s)`): normalise to the mirrored comparison with the constant on the right
		x, y = y, x
		cx, cy, okx, oky = cy, cx, oky, okx
		switch op {
		case token.LSS:
			op = token.GTR
		case token.GTR:
			op = token.LSS
		case token.LEQ:
			op = token.GEQ
		case token.GEQ:
			op = token.LEQ
		}
	}
	if isCmp {
		// interval values
		if r, ok := rangeCmp(op, x, y); ok {
			return Const{constant.MakeBool(r)}, nil
		}
		if op == token.EQL || op == token.NEQ {
			// struct values compare field by field
			if sx, ok := x.(*StructV); ok {
				if sy, ok := y.(*StructV); ok && len(sx.Fields) == len(sy.Fields) {
					all := true
					for i := range sx.Fields {
						r, err := ev.binop(token.EQL, sx.Fields[i], sy.Fields[i], pos)
						if err != nil {
							return nil, err
						}
						c, isC := r.(Const)
						if !isC || c.V == nil || c.V.Kind() != constant.Bool {
							return nil, &Undecided{pos, fmt.Sprintf("field comparison %v == %v", sx.Fields[i], sy.Fields[i])}
						}
						if !constant.BoolVal(c.V) {
							all = false
							break
						}
					}
					return Const{constant.MakeBool(all == (op == token.EQL))}, nil
				}
			}
			// pointers compare by the cell they designate (scenarios decide which parameters alias)
			if px, ok := x.(Ptr); ok {
				if py, ok := y.(Ptr); ok && px.Cell != nil && py.Cell != nil {
					same := px.Cell == py.Cell && len(px.Path) == len(py.Path)
					for i := 0; same && i < len(px.Path); i++ {
						same = px.Path[i] == py.Path[i]
					}
					return Const{constant.MakeBool(same == (op == token.EQL))}, nil
				}
			}
		}
		// pointer vs nil
		if px, ok := x.(Ptr); ok && oky && cy.V == nil {
			isNil := px.Cell == nil
			return Const{constant.MakeBool((op == token.EQL) == isNil)}, nil
		}
		if ix, ok := x.(Iface); ok && oky && cy.V == nil {
			_ = ix
			return Const{constant.MakeBool(op == token.NEQ)}, nil
		}
		// a modelled slice is non-nil
		if _, ok := x.(*SliceV); ok && oky && cy.V == nil && (op == token.EQL || op == token.NEQ) {
			return Const{constant.MakeBool(op == token.NEQ)}, nil
		}
		// the error constructors of the standard library never return nil
		if tx, ok := x.(Term); ok && oky && cy.V == nil && (tx.Fn == "fmt.Errorf" || tx.Fn == "errors.New") && (op == token.EQL || op == token.NEQ) {
			return Const{constant.MakeBool(op == token.NEQ)}, nil
		}
		// a bit vector with known high bits against a constant: decided by its value interval
		if r, ok := bitsCmpConst(op, x, y); ok {
			return Const{constant.MakeBool(r)}, nil
		}
		// arrays compare element by element: [a,b,c] == [x,y,z] ⇔ a==x && b==y && c==z
		if ax, ok := x.(*ArrayV); ok && (op == token.EQL || op == token.NEQ) {
			if ay, ok := y.(*ArrayV); ok && ax.Len == ay.Len && ax.Len > 0 && int64(len(ax.Elems)) == ax.Len && int64(len(ay.Elems)) == ay.Len {
				all := true
				for i := int64(0); i < ax.Len; i++ {
					r, err := ev.binop(token.EQL, ax.Elems[i].V, ay.Elems[i].V, pos)
					if err != nil {
						return nil, err
					}
					c, isC := r.(Const)
					if !isC || c.V == nil || c.V.Kind() != constant.Bool {
						return nil, &Undecided{pos, fmt.Sprintf("array comparison %v %s %v: element %d not decided", x, op, y, i)}
					}
					if !constant.BoolVal(c.V) {
						all = false
						break
					}
				}
				return Const{constant.MakeBool(all == (op == token.EQL))}, nil
			}
		}
		// the sign of a difference of two values that were widened before the subtraction (int64(a)−int64(b) with a, b
		// of 32 bits or fewer; int(x)−int(y) of bytes) is the order of the two values: no wrap-around is possible
		if tx, ok := x.(Term); ok && tx.Fn == "-" && len(tx.Args) == 2 && oky && cy.V != nil && cy.V.Kind() == constant.Int && cy.V.ExactString() == "0" {
			if wa, okA := widenedFrom(tx.Args[0]); okA {
				if wb, okB := widenedFrom(tx.Args[1]); okB && wa < 63 && wb < 63 {
					return ev.binop(op, tx.Args[0], tx.Args[1], pos)
				}
			}
		}
		// two sortable keys packing the same fields at the same positions
		if bx, ok := x.(Bits); ok {
			if by, ok := y.(Bits); ok {
				var asked []string
				ask := func(a, b Val) (int, bool) {
					asked = append(asked, fmt.Sprintf("%v ? %v", a, b))
					return ev.Oracle.Cmp(a, b)
				}
				if ord, ok := packedCmp(bx, by, ask); ok {
					ev.Asked = append(ev.Asked, asked...)
					return Const{constant.MakeBool(cmpHolds(op, ord))}, nil
				}
			}
		}
		// FindSubmatchIndex answers nil exactly when FindSubmatch does: the "no match" tests of the offset form are the
		// tests of the sub-slice form
		if nx, changed := idxAsSubmatch(x); changed {
			return ev.binop(op, nx, y, pos)
		}
		// a length shifted by a constant, tested for equality: len(x)+c == k ⇔ len(x) == k−c (a length is non-negative
		// and below 2^63, so the wrapped sum equals k only there)
		if (op == token.EQL || op == token.NEQ) && oky && cy.V != nil && cy.V.Kind() == constant.Int {
			if ax, isA := x.(Affine); isA {
				if lt, isLen := ax.X.(Term); isLen && lt.Fn == "len" {
					if k, exact := constant.Int64Val(cy.V); exact && k-ax.C >= 0 && (ax.C >= 0) == (k-ax.C <= k) {
						return ev.binop(op, ax.X, Const{constant.MakeInt64(k - ax.C)}, pos)
					}
				}
			}
		}
		// a window of constant width compared with a constant string: `string(in[3:9]) == ":uuid:"` is the conjunction of
		// the byte equalities (a width that differs from the constant's length never equals it)
		if (op == token.EQL || op == token.NEQ) && oky && cy.V != nil && cy.V.Kind() == constant.String {
			if tx, isT := x.(Term); isT && len(tx.Args) == 1 && strings.HasPrefix(tx.Fn, "slice[") && strings.HasSuffix(tx.Fn, "]") {
				bounds := strings.SplitN(tx.Fn[len("slice["):len(tx.Fn)-1], ":", 3)
				if len(bounds) == 2 {
					lo, err1 := strconv.ParseInt(bounds[0], 10, 64)
					if bounds[0] == "" {
						lo, err1 = 0, nil
					}
					hi, err2 := strconv.ParseInt(bounds[1], 10, 64)
					want := constant.StringVal(cy.V)
					if err1 == nil && err2 == nil && lo >= 0 && hi >= lo && hi-lo <= 64 {
						all := hi-lo == int64(len(want))
						for i := int64(0); all && i < hi-lo; i++ {
							bx, bi := rebaseSlice(tx, Const{constant.MakeInt64(i)})
							r, err := ev.binop(token.EQL, Elem{Base: bx, Index: bi}, Const{constant.MakeInt64(int64(want[i]))}, pos)
							if err != nil {
								return nil, err
							}
							c, isC := r.(Const)
							if !isC || c.V == nil || c.V.Kind() != constant.Bool {
								return nil, &Undecided{pos, fmt.Sprintf("window comparison %v %s %v", x, op, y)}
							}
							all = constant.BoolVal(c.V)
						}
						return Const{constant.MakeBool(all == (op == token.EQL))}, nil
					}
				}
			}
		}
		// a case fold compared with a constant: `x|K == C`, `x&^K == C` hold for finitely many x (C with any subset of
		// K's bits cleared resp. set): decided as the disjunction of the equalities x == candidate
		if (op == token.EQL || op == token.NEQ) && oky && cy.V != nil && cy.V.Kind() == constant.Int {
			if tx, isT := x.(Term); isT && len(tx.Args) == 2 && (tx.Fn == "|" || tx.Fn == "&^") {
				operand, kc := tx.Args[0], tx.Args[1]
				if _, isC := operand.(Const); isC && tx.Fn == "|" {
					operand, kc = kc, operand
				}
				if k, isK := kc.(Const); isK && k.V != nil && k.V.Kind() == constant.Int {
					if _, opConst := operand.(Const); !opConst {
						kv, ok1 := constant.Int64Val(k.V)
						cv, ok2 := constant.Int64Val(cy.V)
						if ok1 && ok2 && kv > 0 && cv >= 0 && bits.OnesCount64(uint64(kv)) <= 3 {
							var cands []int64
							feasible := (tx.Fn == "|" && cv&kv == kv) || (tx.Fn == "&^" && cv&kv == 0)
							if feasible {
								// subsets of K's bits
								for sub := kv; ; sub = (sub - 1) & kv {
									if tx.Fn == "|" {
										cands = append(cands, cv&^sub)
									} else {
										cands = append(cands, cv|sub)
									}
									if sub == 0 {
										break
									}
								}
							}
							sort.Slice(cands, func(i, j int) bool { return cands[i] > cands[j] })
							any := false
							for _, cand := range cands {
								r, err := ev.binop(token.EQL, operand, Const{constant.MakeInt64(cand)}, pos)
								if err != nil {
									return nil, err
								}
								if c, isC := r.(Const); isC && c.V != nil && c.V.Kind() == constant.Bool {
									if constant.BoolVal(c.V) {
										any = true
										break
									}
									continue
								}
								return nil, &Undecided{pos, fmt.Sprintf("case-fold comparison %v %s %v", x, op, y)}
							}
							return Const{constant.MakeBool(any == (op == token.EQL))}, nil
						}
					}
				}
			}
		}
		var ord int
		var ok bool
		if oo, isOp := ev.Oracle.(OpOracle); isOp {
			ord, ok = oo.CmpOp(op, x, y)
		} else {
			ord, ok = ev.Oracle.Cmp(x, y)
		}
		ev.Asked = append(ev.Asked, fmt.Sprintf("%v %s %v", x, op, y))
		if !ok {
			return nil, &Undecided{pos, fmt.Sprintf("oracle cannot order %v %s %v", x, op, y)}
		}
		return Const{constant.MakeBool(cmpHolds(op, ord))}, nil
	}
	if op == token.SUB {
		// end − start of one capture: its length
		if o1, ok1 := offsetOf(x); ok1 {
			if o2, ok2 := offsetOf(y); ok2 && o1.End && !o2.End && o1.Cap.String() == o2.Cap.String() {
				return Term{Fn: "len", Args: []Val{o1.Cap}}, nil
			}
		}
	}
	if r, ok := rangeArith(op, x, y); ok {
		return r, nil
	}
	// multiplication by ±1 (a sign factor)
	if op == token.MUL {
		for _, pair := range [][2]Val{{x, y}, {y, x}} {
			if c, ok := pair[0].(Const); ok && c.V != nil && c.V.Kind() == constant.Int {
				switch c.V.ExactString() {
				case "1":
					return pair[1], nil
				case "-1":
					if n, ok := pair[1].(Neg); ok {
						return n.X, nil
					}
					return Neg{pair[1]}, nil
				}
			}
		}
	}
	// symbolic arithmetic: keep as term
	return Term{Fn: op.String(), Args: []Val{x, y}}, nil
}

// sameSubject: a and b denote the same text (a conversion between string and []byte of one value included).
func sameSubject(a, b Val) bool {
	strip := func(v Val) string {
		for i := 0; i < 4; i++ {
			t, ok := v.(Term)
			if !ok || len(t.Args) != 1 || !(strings.HasPrefix(t.Fn, "conv[") || t.Fn == "slice" || t.Fn == "string" || t.Fn == "[]byte") {
				break
			}
			v = t.Args[0]
		}
		return v.String()
	}
	return strip(a) == strip(b)
}

// idxAsSubmatch: the result of (*Regexp).FindSubmatchIndex / FindStringSubmatchIndex, or its len, rewritten as the
// result (the len) of FindSubmatch / FindStringSubmatch on the same operands.
func idxAsSubmatch(v Val) (Val, bool) {
	t, ok := v.(Term)
	if !ok {
		return v, false
	}
	if t.Fn == "len" && len(t.Args) == 1 {
		if inner, changed := idxAsSubmatch(t.Args[0]); changed {
			return Term{Fn: "len", Args: []Val{inner}}, true
		}
		return v, false
	}
	switch t.Fn {
	case "(*regexp.Regexp).FindSubmatchIndex":
		return Term{Fn: "(*regexp.Regexp).FindSubmatch", Args: t.Args}, true
	case "(*regexp.Regexp).FindStringSubmatchIndex":
		return Term{Fn: "(*regexp.Regexp).FindStringSubmatch", Args: t.Args}, true
	}
	return v, false
}

// Offset is the start or end offset of a capture within the subject of a match (an element of the vector
// FindSubmatchIndex returns). Subj, when set, is the subject the offsets refer to.
type Offset struct {
	Cap  Val
	End  bool
	Subj Val
}

func (o Offset) String() string {
	if o.End {
		return "end(" + o.Cap.String() + ")"
	}
	return "start(" + o.Cap.String() + ")"
}

// offsetOf: v is an offset: an Offset value (a rule's summary of FindSubmatchIndex), or element j of the offset
// vector of an uninterpreted FindSubmatchIndex — offset j belongs to capture j/2 of the sub-slice form, odd j its end.
func offsetOf(v Val) (Offset, bool) {
	if o, ok := v.(Offset); ok {
		return o, true
	}
	el, ok := v.(Elem)
	if !ok {
		return Offset{}, false
	}
	c, ok := el.Index.(Const)
	if !ok || c.V == nil || c.V.Kind() != constant.Int {
		return Offset{}, false
	}
	sub, changed := idxAsSubmatch(el.Base)
	j, exact := constant.Int64Val(c.V)
	st, isT := sub.(Term)
	if !changed || !exact || j < 0 || !isT || len(st.Args) != 2 {
		return Offset{}, false
	}
	return Offset{Cap: Elem{Base: sub, Index: Const{constant.MakeInt64(j / 2)}}, End: j%2 == 1, Subj: st.Args[1]}, true
}

// Unordered is the answer an oracle gives for a pair of floating-point operands one of which is NaN: == and every
// ordering test are false, != is true.
const Unordered = 99

func cmpHolds(op token.Token, ord int) bool {
	if ord == Unordered {
		return op == token.NEQ
	}
	switch op {
	case token.EQL:
		return ord == 0
	case token.NEQ:
		return ord != 0
	case token.LSS:
		return ord < 0
	case token.LEQ:
		return ord <= 0
	case token.GTR:
		return ord > 0
	case token.GEQ:
		return ord >= 0
	}
	return false
}

type IntRange struct{ Lo, Hi int64 }

func (r IntRange) String() string { return fmt.Sprintf("[%d..%d]", r.Lo, r.Hi) }

func asRange(v Val) (IntRange, bool) {
	switch x := v.(type) {
	case IntRange:
		return x, true
	case Const:
		if x.V != nil && x.V.Kind() == constant.Int {
			if k, exact := constant.Int64Val(x.V); exact {
				return IntRange{k, k}, true
			}
		}
	}
	return IntRange{}, false
}

// rangeArith: +, -, *, / of an interval and a constant (or two intervals); collapses to a constant when exact.
func rangeArith(op token.Token, x, y Val) (Val, bool) {
	_, xr := x.(IntRange)
	_, yr := y.(IntRange)
	if !xr && !yr {
		return nil, false
	}
	a, ok1 := asRange(x)
	b, ok2 := asRange(y)
	if !ok1 || !ok2 {
		return nil, false
	}
	var r IntRange
	switch op {
	case token.ADD:
		r = IntRange{a.Lo + b.Lo, a.Hi + b.Hi}
	case token.SUB:
		r = IntRange{a.Lo - b.Hi, a.Hi - b.Lo}
	case token.MUL:
		if a.Lo < 0 || b.Lo < 0 {
			return nil, false
		}
		r = IntRange{a.Lo * b.Lo, a.Hi * b.Hi}
	case token.QUO:
		if a.Lo < 0 || b.Lo <= 0 {
			return nil, false
		}
		r = IntRange{a.Lo / b.Hi, a.Hi / b.Lo}
	default:
		return nil, false
	}
	if r.Lo == r.Hi {
		return Const{constant.MakeInt64(r.Lo)}, true
	}
	return r, true
}

// rangeCmp decides a comparison involving an interval when it holds (or fails) for every member.
func rangeCmp(op token.Token, x, y Val) (result, ok bool) {
	_, xr := x.(IntRange)
	_, yr := y.(IntRange)
	if !xr && !yr {
		return false, false
	}
	a, ok1 := asRange(x)
	b, ok2 := asRange(y)
	if !ok1 || !ok2 {
		return false, false
	}
	switch op {
	case token.LSS:
		if a.Hi < b.Lo {
			return true, true
		}
		if a.Lo >= b.Hi {
			return false, true
		}
	case token.LEQ:
		if a.Hi <= b.Lo {
			return true, true
		}
		if a.Lo > b.Hi {
			return false, true
		}
	case token.GTR:
		if a.Lo > b.Hi {
			return true, true
		}
		if a.Hi <= b.Lo {
			return false, true
		}
	case token.GEQ:
		if a.Lo >= b.Hi {
			return true, true
		}
		if a.Hi < b.Lo {
			return false, true
		}
	case token.EQL, token.NEQ:
		if a.Hi < b.Lo || a.Lo > b.Hi {
			return op == token.NEQ, true
		}
		if a.Lo == a.Hi && b.Lo == b.Hi {
			return (op == token.EQL) == (a.Lo == b.Lo), true
		}
	}
	return false, false
}

func (ev *Evaluator) call(env map[ssa.Value]Val, in *ssa.Call) (Val, error) {
	var args []Val
	for _, a := range in.Call.Args {
		v, err := ev.val(env, a)
		if err != nil {
			return nil, err
		}
		args = append(args, v)
	}
	if in.Call.IsInvoke() {
		recv, err := ev.val(env, in.Call.Value)
		if err != nil {
			return nil, err
		}
		i, ok := recv.(Iface)
		if !ok {
			t := Term{Fn: "invoke." + in.Call.Method.Name(), Args: append([]Val{recv}, args...)}
			ev.Trace = append(ev.Trace, t.String())
			return t, nil
		}
		ms := ev.Prog.MethodSets.MethodSet(i.Dyn)
		sel := ms.Lookup(in.Call.Method.Pkg(), in.Call.Method.Name())
		if sel == nil {
			return nil, &Undecided{in.Pos(), "method not found on " + i.Dyn.String()}
		}
		fn := ev.Prog.MethodValue(sel)
		return ev.apply(fn, append([]Val{i.V}, args...), in.Pos())
	}
	switch callee := in.Call.Value.(type) {
	case *ssa.Builtin:
		if callee.Name() == "len" {
			if sv, ok := args[0].(*SliceV); ok {
				return Const{constant.MakeInt64(int64(len(sv.Elems)))}, nil
			}
			if c, ok := args[0].(Const); ok && c.V != nil && c.V.Kind() == constant.String {
				return Const{constant.MakeInt64(int64(len(constant.StringVal(c.V))))}, nil
			}
			// x[lo:hi] with constant bounds has hi-lo elements (that the bounds are within x is the index obligation)
			if t, ok := args[0].(Term); ok && strings.HasPrefix(t.Fn, "slice[") && strings.HasSuffix(t.Fn, "]") {
				var lo, hi int64
				if n, _ := fmt.Sscanf(t.Fn, "slice[%d:%d]", &lo, &hi); n == 2 && 0 <= lo && lo <= hi {
					return Const{constant.MakeInt64(hi - lo)}, nil
				}
			}
			return Term{Fn: "len", Args: args}, nil
		}
		// append of modelled elements to a modelled slice: the concatenation (fresh cells: append never writes through
		// the elements it was given)
		if callee.Name() == "append" && len(args) >= 1 {
			if a, ok := args[0].(*SliceV); ok && a.Cut {
				return nil, &Undecided{in.Pos(), "append onto a re-slice that stops short of its operand's end rewrites the operand's elements in place, which the evaluation by value does not follow"}
			}
		}
		if callee.Name() == "append" && len(args) == 2 {
			if a, ok := args[0].(*SliceV); ok {
				if b, ok := args[1].(*SliceV); ok {
					out := &SliceV{}
					for _, c := range a.Elems {
						out.Elems = append(out.Elems, c)
					}
					for _, c := range b.Elems {
						out.Elems = append(out.Elems, &Cell{V: c.V, Name: c.Name})
					}
					return out, nil
				}
			}
		}
		// append onto a re-slice that stops short of its operand's end (x[:0], x[a:b]) writes into x's own elements
		// when the capacity allows: the evaluator keeps x by value and cannot follow that (a fresh make is no such x)
		if callee.Name() == "append" && len(args) >= 1 {
			if t, ok := args[0].(Term); ok && strings.HasPrefix(t.Fn, "slice[") && !strings.HasSuffix(t.Fn, ":]") && len(t.Args) >= 1 {
				fresh := false
				if p, ok := t.Args[0].(Ptr); ok && p.Cell != nil && strings.HasPrefix(p.Cell.Name, "makeslice") {
					fresh = true
				}
				if !fresh {
					return nil, &Undecided{in.Pos(), "append onto " + t.Fn + " of an existing slice rewrites that slice's elements in place, which the evaluation by value does not follow"}
				}
			}
		}
		// copy writes the elements of its destination: the evaluator keeps slices by value and cannot follow that
		if callee.Name() == "copy" {
			return nil, &Undecided{in.Pos(), "copy(dst, src) rewrites dst in place, which the evaluation by value does not follow"}
		}
		return Term{Fn: "builtin." + callee.Name(), Args: args}, nil
	case *ssa.Function:
		return ev.apply(callee, args, in.Pos())
	}
	// dynamic call through value (e.g. global func var): uninterpreted
	fv, err := ev.val(env, in.Call.Value)
	if err != nil {
		return nil, err
	}
	if cl, ok := fv.(Closure); ok && len(cl.Fn.Blocks) > 0 {
		// a function literal of the module: evaluate its body with the captured values
		ev.pendingFree = cl.Free
		if ev.pendingFree == nil {
			ev.pendingFree = []Val{}
		}
		out, err := ev.Eval(cl.Fn, args)
		if err != nil {
			return nil, err
		}
		if out.Panic {
			return nil, &panicked{out.PanicV}
		}
		return out.Ret, nil
	}
	t := Term{Fn: "dyn:" + fv.String(), Args: args}
	ev.Trace = append(ev.Trace, t.String())
	return t, nil
}

func (ev *Evaluator) apply(fn *ssa.Function, args []Val, pos token.Pos) (Val, error) {
	key := fn.String()
	if o := fn.Origin(); o != nil {
		key = o.String()
	}
	if s, ok := ev.Summaries[key]; ok {
		return s(ev, args)
	}
	if fn.Pkg == nil && fn.Origin() == nil || len(fn.Blocks) == 0 || !strings.HasPrefix(pkgPath(fn), "go.lstv.dev/util") {
		if v, ok := bitCount(key, args, fn); ok {
			return v, nil
		}
		if v, ok := byteOrder(key, args); ok {
			return v, nil
		}
		if v, ok := foldPure(key, args); ok {
			return v, nil
		}
		// cmp.Compare on integers or strings: the order of the operands as −1, 0, +1; cmp.Or: the first non-zero one
		if key == "cmp.Compare" && len(args) == 2 && len(fn.TypeArgs()) == 1 {
			if b, isB := fn.TypeArgs()[0].Underlying().(*types.Basic); isB && b.Info()&(types.IsInteger|types.IsString) != 0 {
				lt, err := ev.binop(token.LSS, args[0], args[1], pos)
				if err != nil {
					return nil, err
				}
				if c, ok := lt.(Const); ok && c.V != nil && c.V.Kind() == constant.Bool {
					if constant.BoolVal(c.V) {
						return Const{constant.MakeInt64(-1)}, nil
					}
					gt, err := ev.binop(token.GTR, args[0], args[1], pos)
					if err != nil {
						return nil, err
					}
					if c, ok := gt.(Const); ok && c.V != nil && c.V.Kind() == constant.Bool {
						if constant.BoolVal(c.V) {
							return Const{constant.MakeInt64(1)}, nil
						}
						return Const{constant.MakeInt64(0)}, nil
					}
				}
			}
		}
		if key == "cmp.Or" && len(args) == 1 {
			if sv, ok := args[0].(*SliceV); ok {
				decided := true
				for _, c := range sv.Elems {
					k, isC := c.V.(Const)
					if !isC || k.V == nil || k.V.Kind() != constant.Int {
						decided = false
						break
					}
					if constant.Sign(k.V) != 0 {
						return k, nil
					}
				}
				if decided {
					return Const{constant.MakeInt64(0)}, nil
				}
			}
		}
		// the 128-bit product with the constant 1 (or 0) is known: high word 0, low word the other factor (0)
		if key == "math/bits.Mul64" && len(args) == 2 {
			for i := 0; i < 2; i++ {
				if c, ok := args[i].(Const); ok && c.V != nil && c.V.Kind() == constant.Int {
					if k, exact := constant.Uint64Val(c.V); exact && k == 1 {
						return Tuple{Const{constant.MakeUint64(0)}, args[1-i]}, nil
					} else if exact && k == 0 {
						return Tuple{Const{constant.MakeUint64(0)}, Const{constant.MakeUint64(0)}}, nil
					}
				}
			}
		}
		// a function outside the module that is handed a slice the evaluator keeps by value may rewrite it in place
		// (sort.Slice, rand.Shuffle, io.ReadFull): unless it is known to only read, the evaluation stops here
		for i, a := range args {
			_, modelled := a.(*SliceV)
			// … also a slice-typed value the evaluator carries as a term, and one boxed into an interface
			// (sort.Slice(b, less)): by the callee's parameter type, or the dynamic type of the boxed value
			if !modelled {
				if ifc, ok := a.(Iface); ok && ifc.Dyn != nil {
					_, modelled = ifc.Dyn.Underlying().(*types.Slice)
				} else if sig := fn.Signature; sig != nil {
					pi := i
					if sig.Recv() != nil {
						pi = i - 1
					}
					if pi >= 0 && pi < sig.Params().Len() {
						if _, isConst := a.(Const); !isConst {
							_, modelled = sig.Params().At(pi).Type().Underlying().(*types.Slice)
						}
					}
				}
			}
			if modelled && !readsOnly(key) {
				return nil, &Undecided{pos, "a slice kept by value is handed to " + key + ", which may rewrite it in place"}
			}
		}
		t := Term{Fn: key, Args: args}
		ev.Trace = append(ev.Trace, t.String())
		return t, nil
	}
	if ev.Fallback != nil {
		if v, handled, err := ev.Fallback(fn, args); handled {
			return v, err
		}
	}
	out, err := ev.Eval(fn, args)
	if err != nil {
		return nil, err
	}
	if out.Panic {
		return nil, &panicked{out.PanicV}
	}
	return out.Ret, nil
}

// readsOnly: standard-library functions that do not write through a slice argument.
func readsOnly(name string) bool {
	for _, p := range []string{"strconv.", "strings.", "fmt.", "errors.", "unicode", "math/bits.", "(*regexp.Regexp).", "regexp.",
		"bytes.Equal", "bytes.Has", "bytes.Index", "bytes.LastIndex", "bytes.Contains", "bytes.Count", "bytes.Compare", "bytes.ToUpper", "bytes.ToLower",
		"bytes.Trim", "bytes.NewReader", "bytes.NewBuffer", "bytes.Split", "bytes.Fields", "bytes.Join", "bytes.Repeat",
		"encoding/json.Valid", "encoding/json.Unmarshal", "encoding/json.NewDecoder", "encoding/hex.", "(encoding/binary.", "encoding/binary.",
		"unicode/utf8.", "github.com/stretchr/testify/", "reflect.", "(*bytes.Buffer).Write", "(*strings.Builder).Write", "html/template."} {
		if strings.HasPrefix(name, p) {
			return true
		}
	}
	return false
}

// panicked carries a callee's panic up to the evaluation of the calling function.
type panicked struct{ V Val }

func (p *panicked) Error() string { return fmt.Sprintf("callee panics with %v", p.V) }

func pkgPath(fn *ssa.Function) string {
	if fn.Pkg != nil {
		return fn.Pkg.Pkg.Path()
	}
	if o := fn.Origin(); o != nil && o.Pkg != nil {
		return o.Pkg.Pkg.Path()
	}
	return ""
}

func isConstVal(v Val) bool { _, ok := v.(Const); return ok }

// NarrowingInt: a conversion between integer types to a type of fewer bits (int, uint and uintptr have WordBits).
func NarrowingInt(from, to types.Type) bool {
	bitsOf := func(t types.Type) int {
		b, ok := t.Underlying().(*types.Basic)
		if !ok || b.Info()&types.IsInteger == 0 {
			return 0
		}
		switch b.Kind() {
		case types.Int8, types.Uint8:
			return 8
		case types.Int16, types.Uint16:
			return 16
		case types.Int32, types.Uint32:
			return 32
		case types.Int64, types.Uint64:
			return 64
		case types.Int, types.Uint, types.Uintptr:
			if WordBits > 0 {
				return WordBits
			}
			return 64
		}
		return 0
	}
	f, t := bitsOf(from), bitsOf(to)
	return f > 0 && t > 0 && t < f
}

func isFloat(t types.Type) bool {
	b, ok := t.Underlying().(*types.Basic)
	return ok && b.Info()&types.IsFloat != 0
}

// isNumericish: a type parameter whose type set contains numeric types.
func isNumericish(t types.Type) bool {
	tp, ok := t.(*types.TypeParam)
	if !ok {
		return false
	}
	found := false
	var walk func(t types.Type, d int)
	walk = func(t types.Type, d int) {
		if d > 5 || found {
			return
		}
		switch u := t.Underlying().(type) {
		case *types.Interface:
			for i := 0; i < u.NumEmbeddeds(); i++ {
				walk(u.EmbeddedType(i), d+1)
			}
		case *types.Union:
			for i := 0; i < u.Len(); i++ {
				walk(u.Term(i).Type(), d+1)
			}
		case *types.Basic:
			if u.Info()&types.IsNumeric != 0 {
				found = true
			}
		}
	}
	walk(tp.Constraint(), 0)
	return found
}

// rebaseSlice: element k of x[lo:] (constant lo and k) is element lo+k of x — so that `in := input[9:]; in[8]` and
// `input[17]` are the same abstract element.
func rebaseSlice(x, idx Val) (Val, Val) {
	for i := 0; i < 4; i++ {
		t, ok := x.(Term)
		if !ok || len(t.Args) != 1 || !strings.HasPrefix(t.Fn, "slice[") || !strings.HasSuffix(t.Fn, "]") {
			return x, idx
		}
		bounds := t.Fn[len("slice[") : len(t.Fn)-1]
		j := strings.Index(bounds, ":")
		if j < 0 {
			return x, idx
		}
		lo := int64(0)
		if bounds[:j] != "" {
			n, err := strconv.ParseInt(bounds[:j], 10, 64)
			if err != nil {
				return x, idx
			}
			lo = n
		}
		c, ok := idx.(Const)
		if !ok || c.V == nil || c.V.Kind() != constant.Int {
			return x, idx
		}
		k, exact := constant.Int64Val(c.V)
		if !exact {
			return x, idx
		}
		x, idx = t.Args[0], Const{constant.MakeInt64(lo + k)}
	}
	return x, idx
}

func isStringType(t types.Type) bool {
	b, ok := t.Underlying().(*types.Basic)
	return ok && b.Info()&types.IsString != 0
}

// foldPure evaluates a few pure functions of package strings / unicode on constant operands (a byte looked up in a
// literal set, a literal put in upper case): their result is a constant of the program, not an input.
func foldPure(name string, args []Val) (Val, bool) {
	str := func(i int) (string, bool) {
		if i >= len(args) {
			return "", false
		}
		c, ok := args[i].(Const)
		if !ok || c.V == nil || c.V.Kind() != constant.String {
			return "", false
		}
		return constant.StringVal(c.V), true
	}
	num := func(i int) (int64, bool) {
		if i >= len(args) {
			return 0, false
		}
		c, ok := args[i].(Const)
		if !ok || c.V == nil || c.V.Kind() != constant.Int {
			return 0, false
		}
		return constant.Int64Val(c.V)
	}
	mkInt := func(k int) (Val, bool) { return Const{constant.MakeInt64(int64(k))}, true }
	mkBool := func(b bool) (Val, bool) { return Const{constant.MakeBool(b)}, true }
	switch name {
	case "strings.IndexByte":
		s, ok1 := str(0)
		c, ok2 := num(1)
		if ok1 && ok2 && c >= 0 && c < 256 {
			return mkInt(strings.IndexByte(s, byte(c)))
		}
	case "strings.IndexRune", "strings.ContainsRune":
		s, ok1 := str(0)
		c, ok2 := num(1)
		if ok1 && ok2 {
			if name == "strings.IndexRune" {
				return mkInt(strings.IndexRune(s, rune(c)))
			}
			return mkBool(strings.ContainsRune(s, rune(c)))
		}
	case "strings.Contains", "strings.HasPrefix", "strings.HasSuffix", "strings.EqualFold", "strings.Index":
		a, ok1 := str(0)
		b, ok2 := str(1)
		if ok1 && ok2 {
			switch name {
			case "strings.Contains":
				return mkBool(strings.Contains(a, b))
			case "strings.HasPrefix":
				return mkBool(strings.HasPrefix(a, b))
			case "strings.HasSuffix":
				return mkBool(strings.HasSuffix(a, b))
			case "strings.EqualFold":
				return mkBool(strings.EqualFold(a, b))
			default:
				return mkInt(strings.Index(a, b))
			}
		}
	case "strings.ToUpper", "strings.ToLower":
		if s, ok := str(0); ok {
			if name == "strings.ToUpper" {
				return Const{constant.MakeString(strings.ToUpper(s))}, true
			}
			return Const{constant.MakeString(strings.ToLower(s))}, true
		}
	case "unicode.ToUpper", "unicode.ToLower":
		if c, ok := num(0); ok {
			if name == "unicode.ToUpper" {
				return mkInt(int(unicode.ToUpper(rune(c))))
			}
			return mkInt(int(unicode.ToLower(rune(c))))
		}
	}
	return nil, false
}

// widenedFrom: v is a bit vector that extends (by sign or by zeros) a narrower value: returns the number of
// significant bits (sign bit included), so that differences of two such values cannot wrap in the wider type.
func widenedFrom(v Val) (int, bool) {
	b, ok := v.(Bits)
	if !ok || len(b.B) < 2 {
		return 0, false
	}
	top := b.B[len(b.B)-1]
	n := len(b.B)
	for n > 1 {
		cur, below := b.B[n-1], b.B[n-2]
		same := cur.K == top.K && (cur.K == '0' || cur.K == 's' && cur.Sym == top.Sym && cur.Idx == top.Idx) &&
			(below.K == cur.K && (cur.K == '0' || below.Sym == cur.Sym && below.Idx == cur.Idx))
		if !same {
			break
		}
		n--
	}
	if n >= len(b.B) {
		return 0, false
	}
	return n + 1, true
}
