// Package tab: read literal tables and constants from the type-checked AST (prototype).
package tab

import (
	"fmt"
	"go/ast"
	"go/constant"
	"go/token"
	"go/types"

	"golang.org/x/tools/go/packages"
)

type Table struct {
	Name   string
	Keys   []constant.Value // for maps (nil for slices)
	Values []constant.Value // nil entry = non-constant
	Pos    token.Pos
}

func FindPkg(pkgs []*packages.Package, name string) *packages.Package {
	for _, p := range pkgs {
		if p.Name == name {
			return p
		}
	}
	return nil
}

// Literal returns the composite-literal table assigned to package-level var name.
func Literal(p *packages.Package, name string) (*Table, error) {
	for _, f := range p.Syntax {
		for _, d := range f.Decls {
			gd, ok := d.(*ast.GenDecl)
			if !ok || gd.Tok != token.VAR {
				continue
			}
			for _, sp := range gd.Specs {
				vs := sp.(*ast.ValueSpec)
				for i, n := range vs.Names {
					if n.Name != name || i >= len(vs.Values) {
						continue
					}
					cl, ok := vs.Values[i].(*ast.CompositeLit)
					if !ok {
						return nil, fmt.Errorf("%s is not initialised by a composite literal", name)
					}
					t := &Table{Name: name, Pos: cl.Pos()}
					for _, e := range cl.Elts {
						if kv, ok := e.(*ast.KeyValueExpr); ok {
							t.Keys = append(t.Keys, p.TypesInfo.Types[kv.Key].Value)
							if tv, ok := p.TypesInfo.Types[kv.Value]; ok {
								t.Values = append(t.Values, tv.Value)
							} else {
								t.Values = append(t.Values, nil)
							}
						} else {
							t.Keys = append(t.Keys, nil)
							t.Values = append(t.Values, p.TypesInfo.Types[e].Value)
						}
					}
					return t, nil
				}
			}
		}
	}
	return nil, fmt.Errorf("table %s not found", name)
}

// Const returns the value of a package-level constant.
func Const(p *packages.Package, name string) constant.Value {
	o := p.Types.Scope().Lookup(name)
	if c, ok := o.(interface{ Val() constant.Value }); ok {
		return c.Val()
	}
	return nil
}

// SliceValues resolves the element values of an array/slice literal by index (keyed elements honoured).
func (t *Table) SliceValues() ([]constant.Value, error) {
	var out []constant.Value
	next := int64(0)
	for i, v := range t.Values {
		if t.Keys[i] != nil {
			k, ok := constant.Int64Val(t.Keys[i])
			if !ok || k < 0 || k > 1<<16 {
				return nil, fmt.Errorf("non-integer key in slice literal %s", t.Name)
			}
			next = k
		}
		for int64(len(out)) <= next {
			out = append(out, nil)
		}
		out[next] = v
		next++
	}
	return out, nil
}

// StructRows reads a package-level slice-of-struct literal as rows of field name → constant value.
func StructRows(p *packages.Package, name string) ([]map[string]constant.Value, token.Pos, error) {
	for _, f := range p.Syntax {
		for _, d := range f.Decls {
			gd, ok := d.(*ast.GenDecl)
			if !ok || gd.Tok != token.VAR {
				continue
			}
			for _, sp := range gd.Specs {
				vs := sp.(*ast.ValueSpec)
				for i, n := range vs.Names {
					if n.Name != name || i >= len(vs.Values) {
						continue
					}
					cl, ok := vs.Values[i].(*ast.CompositeLit)
					if !ok {
						return nil, 0, fmt.Errorf("%s is not initialised by a composite literal", name)
					}
					var rows []map[string]constant.Value
					for _, e := range cl.Elts {
						if kv, ok := e.(*ast.KeyValueExpr); ok {
							e = kv.Value
						}
						row, ok := e.(*ast.CompositeLit)
						if !ok {
							return nil, 0, fmt.Errorf("%s: element is not a struct literal", name)
						}
						st, _ := p.TypesInfo.TypeOf(row).Underlying().(*types.Struct)
						m := map[string]constant.Value{}
						for j, fe := range row.Elts {
							if kv, ok := fe.(*ast.KeyValueExpr); ok {
								if id, ok := kv.Key.(*ast.Ident); ok {
									m[id.Name] = p.TypesInfo.Types[kv.Value].Value
								}
							} else if st != nil && j < st.NumFields() {
								m[st.Field(j).Name()] = p.TypesInfo.Types[fe].Value
							}
						}
						rows = append(rows, m)
					}
					return rows, cl.Pos(), nil
				}
			}
		}
	}
	return nil, 0, fmt.Errorf("table %s not found", name)
}
