// Package core holds the obligation model shared by every rule: what was
// checked, on which construct, with which verdict, and how that is turned into
// the harness interface (stdout lines, exit status, evidence file).
package core

import (
	"encoding/json"
	"fmt"
	"os"
	"path/filepath"
	"sort"
	"strings"
)

type Status string

const (
	Discharged Status = "discharged"
	Violated   Status = "violated"
	Undecided  Status = "undecided"
)

// Ob is one rule instance on one construct of /repo.
type Ob struct {
	Rule      string `json:"rule"`                // e.g. "C16.append"
	Site      string `json:"site"`                // package.function (never a line)
	Construct string `json:"construct,omitempty"` // stable description of the construct inside Site
	Status    Status `json:"status"`
	Msg       string `json:"msg"`
	Pos       string `json:"pos,omitempty"` // file:line, informational only
	Witness   string `json:"witness,omitempty"`
}

// Key identifies an obligation independently of line numbers.
func (o Ob) Key() string {
	return o.Rule + "|" + o.Site + "|" + o.Construct
}

// BaseKey is Key without the platform suffix the thorough tier adds to obligations re-established under another
// GOARCH: a known finding is the same finding on every platform.
func (o Ob) BaseKey() string {
	return o.Rule + "|" + o.Site + "|" + strings.TrimSuffix(o.Construct, " [GOARCH=386]")
}

func (o Ob) String() string {
	s := fmt.Sprintf("%-10s %-12s %s", o.Status, o.Rule, o.Site)
	if o.Construct != "" {
		s += " [" + o.Construct + "]"
	}
	s += " — " + o.Msg
	if o.Witness != "" {
		s += " (witness: " + o.Witness + ")"
	}
	if o.Pos != "" {
		s += " (" + o.Pos + ")"
	}
	return s
}

// Sink collects obligations.
type Sink struct {
	Obs []Ob
}

func (s *Sink) Add(o Ob) { s.Obs = append(s.Obs, o) }

func (s *Sink) Ok(rule, site, construct, msg, pos string) {
	s.Add(Ob{Rule: rule, Site: site, Construct: construct, Status: Discharged, Msg: msg, Pos: pos})
}
func (s *Sink) Bad(rule, site, construct, msg, pos, witness string) {
	s.Add(Ob{Rule: rule, Site: site, Construct: construct, Status: Violated, Msg: msg, Pos: pos, Witness: witness})
}
func (s *Sink) Unk(rule, site, construct, msg, pos string) {
	s.Add(Ob{Rule: rule, Site: site, Construct: construct, Status: Undecided, Msg: msg, Pos: pos})
}

// Count returns the number of obligations of the rule (any status).
func (s *Sink) Count(rule string) int {
	n := 0
	for _, o := range s.Obs {
		if o.Rule == rule {
			n++
		}
	}
	return n
}

// Floor records an anchor-count requirement: the rule must have produced at
// least min obligations, otherwise the rule passes vacuously and that is a
// failure of its own.
func (s *Sink) Floor(rule string, min int) {
	if n := s.Count(rule); n < min {
		s.Unk(rule, "(anchors)", "floor", fmt.Sprintf("only %d obligation(s) instantiated, the hand-confirmed floor is %d: an anchor of this rule is gone or no longer recognised", n, min), "")
	}
}

// ---------------------------------------------------------------------------
// Known findings

type Finding struct {
	Property string `json:"property"`
	Key      string `json:"key"` // obligation key: rule|site|construct
	What     string `json:"what"`
	Input    string `json:"failing_input,omitempty"`
}

type Fixed struct {
	Property string `json:"property"`
	Commit   string `json:"commit"`
	What     string `json:"what"`
	Line     string `json:"line"` // "fixed: property=<id> <commit> <what failed>"
}

type KnownFile struct {
	Comment string    `json:"comment"`
	Known   []Finding `json:"known_findings"`
	Fixed   []Fixed   `json:"fixed"`
}

func LoadKnown(path string) (*KnownFile, error) {
	b, err := os.ReadFile(path)
	if err != nil {
		if os.IsNotExist(err) {
			return &KnownFile{}, nil
		}
		return nil, err
	}
	k := &KnownFile{}
	if err := json.Unmarshal(b, k); err != nil {
		return nil, err
	}
	return k, nil
}

// ---------------------------------------------------------------------------
// Evidence

type Evidence struct {
	PropertyID  string         `json:"property_id"`
	Tier        string         `json:"tier"`
	Seed        int64          `json:"seed"`
	Level       string         `json:"level"`
	Coverage    map[string]any `json:"coverage"`
	Assumptions []string       `json:"assumptions"`
	WallS       float64        `json:"wall_s"`
	Violations  int            `json:"violations"`
}

// Report is the outcome of one property run.
type Report struct {
	Prop        string
	Tier        string
	Obs         []Ob
	Explanation string
	NotDecided  []string
	Assumptions []string
	Extra       map[string]any
	Broken      []string // checker-level failures (load errors, self-test failures, panics)
	// Platform names the target of the primary pass when it is not the default one ("GOARCH=386" when the checker
	// itself is run for that target): its obligations are then those a known finding lists with that suffix
	Platform string
}

// Emit prints the harness lines, writes evidence and replay files and returns
// the process exit status.
// EmitNoEvidence prints the verdict lines only (used when analysing scratch copies).
func (r *Report) EmitNoEvidence(known *KnownFile) int {
	return r.emit("", known, 0, 0, false)
}

func (r *Report) Emit(verifDir string, known *KnownFile, seed int64, wall float64) int {
	return r.emit(verifDir, known, seed, wall, true)
}

func (r *Report) emit(verifDir string, known *KnownFile, seed int64, wall float64, write bool) int {
	sort.SliceStable(r.Obs, func(i, j int) bool { return r.Obs[i].Key() < r.Obs[j].Key() })
	knownKeys := map[string]Finding{}
	for _, f := range known.Known {
		if f.Property == r.Prop {
			knownKeys[f.Key] = f
		}
	}
	// a finding is listed for the platform it was shown on: a key ending in " [GOARCH=386]" matches only the
	// obligation of the second pass (the same violation on the primary platform is a different, unlisted one); a key
	// without the suffix is a platform-independent finding and also covers its repetition in the second pass
	lookup := func(o Ob) (Finding, bool) {
		if r.Platform != "" && o.Key() == o.BaseKey() {
			if f, ok := knownKeys[o.Key()+" ["+r.Platform+"]"]; ok {
				return f, true
			}
			f, ok := knownKeys[o.Key()]
			return f, ok
		}
		if f, ok := knownKeys[o.Key()]; ok {
			return f, true
		}
		if o.Key() != o.BaseKey() {
			f, ok := knownKeys[o.BaseKey()]
			return f, ok
		}
		return Finding{}, false
	}
	var viol, undec, knownHit []Ob
	disc := 0
	rules := map[string][3]int{}
	for _, o := range r.Obs {
		c := rules[o.Rule]
		switch o.Status {
		case Discharged:
			disc++
			c[0]++
		case Violated:
			c[1]++
			if _, ok := lookup(o); ok {
				knownHit = append(knownHit, o)
			} else {
				viol = append(viol, o)
			}
		case Undecided:
			c[2]++
			undec = append(undec, o)
		}
		rules[o.Rule] = c
	}
	replayDir := filepath.Join(verifDir, "evidence", "replay")
	if write {
		os.MkdirAll(replayDir, 0o755)
		// remove stale replay files of this property
		if old, _ := filepath.Glob(filepath.Join(replayDir, r.Prop+"-*.json")); old != nil {
			for _, f := range old {
				os.Remove(f)
			}
		}
	}
	printed := map[string]bool{}
	for _, o := range knownHit { // the primary platform first, a finding met only in the GOARCH=386 pass after it
		if !strings.HasSuffix(o.Construct, " [GOARCH=386]") {
			printed[o.BaseKey()] = true
			f, _ := lookup(o)
			fmt.Printf("KNOWN-FINDING: property=%s rule=%s site=%s %s\n", r.Prop, o.Rule, o.Site, f.What)
		}
	}
	for _, o := range knownHit {
		if strings.HasSuffix(o.Construct, " [GOARCH=386]") && !printed[o.BaseKey()] {
			printed[o.BaseKey()] = true
			f, _ := lookup(o)
			fmt.Printf("KNOWN-FINDING: property=%s rule=%s site=%s [GOARCH=386] %s\n", r.Prop, o.Rule, o.Site, f.What)
		}
	}
	exit := 0
	writeReplay := func(o Ob, i int) string {
		name := fmt.Sprintf("%s-%s-%d.json", r.Prop, sanitize(o.Rule+"-"+o.Site), i)
		p := filepath.Join(replayDir, name)
		if !write {
			return "-"
		}
		b, _ := json.MarshalIndent(map[string]any{"property": r.Prop, "obligation": o, "key": o.Key(),
			"how_to_replay": "./bin/utilcheck -prop " + r.Prop + " -tier " + r.Tier + " -only '" + o.Rule + "' -v"}, "", " ")
		os.WriteFile(p, append(b, '\n'), 0o644)
		return p
	}
	for i, o := range undec {
		fmt.Printf("UNDECIDED property=%s rule=%s site=%s %s\n", r.Prop, o.Rule, o.Site, o.Msg)
		fmt.Printf("VIOLATION property=%s replay=%s\n", r.Prop, writeReplay(o, 1000+i))
		exit = 1
	}
	for i, o := range viol {
		fmt.Println(o.String())
		fmt.Printf("VIOLATION property=%s replay=%s\n", r.Prop, writeReplay(o, i))
		exit = 1
	}
	for i, b := range r.Broken {
		fmt.Printf("BROKEN property=%s %s\n", r.Prop, b)
		p := filepath.Join(replayDir, fmt.Sprintf("%s-broken-%d.json", r.Prop, i))
		bb, _ := json.MarshalIndent(map[string]any{"property": r.Prop, "broken": b}, "", " ")
		if write {
			os.WriteFile(p, append(bb, '\n'), 0o644)
		}
		fmt.Printf("VIOLATION property=%s replay=%s\n", r.Prop, p)
		exit = 1
	}
	if exit == 0 {
		fmt.Printf("OK property=%s tier=%s obligations=%d discharged=%d known_findings=%d\n", r.Prop, r.Tier, len(r.Obs), disc, len(knownHit))
	}

	if !write {
		return exit
	}
	// evidence
	var samples []any
	perRule := map[string]int{}
	for _, o := range r.Obs {
		if perRule[o.Rule] < 3 || o.Status != Discharged {
			perRule[o.Rule]++
			samples = append(samples, o)
		}
	}
	ruleSummary := map[string]any{}
	var ruleNames []string
	for k := range rules {
		ruleNames = append(ruleNames, k)
	}
	sort.Strings(ruleNames)
	for _, k := range ruleNames {
		c := rules[k]
		ruleSummary[k] = map[string]int{"discharged": c[0], "violated": c[1], "undecided": c[2]}
	}
	sites := map[string]bool{}
	for _, o := range r.Obs {
		sites[o.Site] = true
	}
	cov := map[string]any{
		"obligations":        len(r.Obs),
		"discharged":         disc,
		"violated":           len(viol) + len(knownHit),
		"undecided":          len(undec),
		"known_findings_hit": len(knownHit),
		"rules":              ruleSummary,
		"sites_analysed":     len(sites),
		"samples":            samples,
		"explanation":        r.Explanation,
		"not_decided":        r.NotDecided,
		"checker_cmd":        "./bin/utilcheck -prop " + r.Prop + " -tier " + r.Tier,
		"trusted_base":       []string{"go/types", "go/ssa (x/tools v0.29.0)", "regexp/syntax", "stdlib summaries listed in DESIGN.md §2.5"},
		"exhaustive":         false,
	}
	for k, v := range r.Extra {
		cov[k] = v
	}
	ev := Evidence{PropertyID: r.Prop, Tier: r.Tier, Seed: seed, Level: "other", Coverage: cov,
		Assumptions: r.Assumptions, WallS: wall, Violations: len(viol) + len(undec) + len(r.Broken)}
	if ev.Assumptions == nil {
		ev.Assumptions = []string{}
	}
	b, _ := json.MarshalIndent(ev, "", " ")
	os.MkdirAll(filepath.Join(verifDir, "evidence"), 0o755)
	if err := os.WriteFile(filepath.Join(verifDir, "evidence", r.Prop+".json"), append(b, '\n'), 0o644); err != nil {
		fmt.Printf("BROKEN property=%s cannot write evidence: %v\n", r.Prop, err)
		return 1
	}
	return exit
}

func sanitize(s string) string {
	return strings.Map(func(r rune) rune {
		switch {
		case r >= 'a' && r <= 'z', r >= 'A' && r <= 'Z', r >= '0' && r <= '9', r == '.', r == '-', r == '_':
			return r
		}
		return '_'
	}, s)
}
